"""Oracle for C07: solve always returns a well-formed result; bad input is reported, not raised.

Every case is one call of the real dfols.solve with a counting objective.  A case carries an expectation:
  ok           input in the documented domain: a result must come back, flag one of the exit codes named in
               docs/userguide.rst and not the input-error flag, non-empty msg, str(soln) works
  accept       same input class, but run with maxfun=1 only to see that validation accepts it (used for values a
               hair inside a range where a full run says nothing new)
  input_error  invalid input: result with flag == soln.EXIT_INPUT_ERROR, soln.nf == 0, zero calls of the objective,
               non-empty msg, str(soln) works - and no exception
  unknown_key  a parameter name that does not exist: ValueError

Signatures (a known finding is matched by signature; one defect = one signature):
  C07:input_error_raises:<argkind>:<Exc>       invalid input raised before any objective evaluation instead of returning
                                               the input-error result (<argkind> = user_param for all parameter-table
                                               cases, else the kind of invalid argument incl. the context that matters,
                                               e.g. bounds_shape+scaling)
  C07:bad_value_accepted:<key>                 out-of-range / wrongly typed value of <key> not reported: the solver went
                                               on to evaluate the objective (whether it then returned, raised or spun)
  C07:bool_accepted_as_int                     ... True/False for an int-typed key (bool is an int in Python)
  C07:none_value_ignored                       ... None for a key whose table entry does not allow None (silently dropped)
  C07:bad_argument_accepted:<argkind>          invalid solve() argument not reported (same criterion)
  C07:input_error_nonzero_evals:<argkind>      input-error result but nf != 0 or the objective was called
  C07:input_error_empty_msg / C07:empty_msg    msg empty or not a string
  C07:str_raises:<Exc>                         str(soln) raised (any result)
  C07:good_value_rejected:<key>                in-range / boundary value of <key> reported as input error
  C07:valid_argument_rejected:<argkind>        valid (boundary) argument reported as input error
  C07:valid_input_raises:<Exc>@<module>.<function>   valid input raised; keyed by the innermost dfols frame (LinAlgError
                                               with interpolation.throw_error_on_nans=True is documented, not reported)
  C07:valid_input_hangs:<key|argkind|optionset>      valid input: CPU_NOEVAL_LIMIT seconds of CPU time without a single
                                               objective evaluation (see _Watch; slow-but-evaluating runs are not judged)
  C07:undocumented_flag:<flag>                 flag not among the exit codes named in the user guide
  C07:unknown_param_no_valueerror:<outcome>    unknown parameter name did not raise ValueError
  C07:exit_constant_missing:<NAME>             result object lacks an EXIT_* constant named in the user guide
  C07:documented_key_unknown:<key>             key documented in docs/advanced.rst is not a known parameter
 known limitations / corner cases (named by the property / the task):
  C07:projections_npt_runtimeerror             projections with npt != n+1 (also after restarts.increase_npt) or a reduced
                                               initial set -> RuntimeError 'Unable to generate suitable initial directions'
  C07:sfista_zero_iters                        func_tol.max_iters = 0 with a regulariser -> UnboundLocalError (numpy-float
                                               lh) or ZeroDivisionError (Python-float lh) in trust_region.ctrsbox_sfista
  C07:growing_zero_division                    growing with npt > n+1 (set by the user or reached by hard restarts with
                                               restarts.increase_npt) -> division by a zero norm in
                                               controller.add_new_direction_while_growing / get_new_direction_for_growing:
                                               ZeroDivisionError, or NaN point -> ValueError in the next factorisation
"""
import contextlib, io, logging, math, os, re, signal, sys, time, traceback, warnings

for _v in ('OPENBLAS_NUM_THREADS', 'OMP_NUM_THREADS', 'MKL_NUM_THREADS'):   # tiny matrices: BLAS threads only hurt
    os.environ.setdefault(_v, '1')

_REPO = os.environ.get('DFOLS_REPO', '/repo')
if _REPO not in sys.path:
    sys.path.insert(0, _REPO)
import numpy as np
import dfols
from dfols.params import ParameterList

logging.getLogger('dfols').addHandler(logging.NullHandler())

RULE = ("Cases are single calls of dfols.solve on random small problems (linear+sine, Rosenbrock chain, exponential "
        "fit; n<=5, m<=9; optional noise / NaN at the k-th evaluation) generated from numpy.random.default_rng((seed, i)). "
        "Four families: (keys) every key of ParameterList's table - keys and (type, None-ok, lower, upper) read from "
        "ParameterList.params / param_type() at run time - gets default, lower/upper boundary and interior values "
        "(full runs, in a context that makes the key live: restarts / growing / regression / noise / projections / "
        "regulariser), hair-inside values (acceptance runs, maxfun=1), and just-below-lower, just-above-upper, far out, "
        "NaN, wrong Python type, bool-for-int, None values (must be input errors); (args) invalid and boundary-valid "
        "solve() arguments: radii, npt, maxfun, narrow / zero-gap / reversed / wrong-shaped bounds with and without "
        "scaling_within_bounds and projections, regulariser without lh / prox or with lh<=0, the five exclusivity "
        "checks of solve() and their consistent counterparts, each mixed with random valid options; (random) valid "
        "problems with random option sets; (misc) unknown parameter names, EXIT_* constants of the user guide, keys "
        "documented in advanced.rst.  evaluations = calls of solve judged.  A case is non-trivial when it is an "
        "invalid-input / unknown-name case (the branch no test reaches), or a valid case that sets at least one "
        "non-default argument or parameter and performed more than one objective evaluation.")

CPU_NOEVAL_LIMIT = 6.0     # seconds of process CPU time without any objective evaluation -> hang
TASK_TIMEOUT = 900          # wall seconds per task for harness.generic (a confirmed hang costs ~70 s of CPU)
HANG_CONFIRM_FACTOR = 10   # a hang verdict is re-run with this many times the no-evaluation limit before it is reported
CPU_TOTAL_LIMIT = 15.0     # seconds of process CPU time for one solve that keeps evaluating -> 'slow': abandoned, not judged


# ---------------------------------------------------------------------------------------------------- encoding
def enc(v):
    """python value -> JSON-able tagged value (floats exact)"""
    if v is None:
        return {'t': 'none'}
    if isinstance(v, (bool, np.bool_)):
        return {'t': 'bool', 'v': bool(v)}
    if isinstance(v, (int, np.integer)):
        return {'t': 'int', 'v': int(v)}
    if isinstance(v, (float, np.floating)):
        return {'t': 'float', 'v': float(v).hex()}
    if isinstance(v, str):
        return {'t': 'str', 'v': v}
    if isinstance(v, (list, tuple)):
        return {'t': 'list', 'v': [enc(e) for e in v]}
    raise TypeError('cannot encode %r' % (v,))


def dec(e):
    t = e['t']
    if t == 'none':
        return None
    if t == 'float':
        return float.fromhex(e['v'])
    if t == 'list':
        return [dec(x) for x in e['v']]
    return e['v']


def show(e):
    v = dec(e)
    return '%s:%r' % (e['t'], v)


def hxl(a):
    return [float(x).hex() for x in np.asarray(a, dtype=float).ravel()]


def unhxl(l):
    return np.array([float.fromhex(s) for s in l], dtype=float)


# ---------------------------------------------------------------------------------------------------- problems
class _Counter(object):
    def __init__(self):
        self.calls = 0
        self.nan_x_calls = 0
        self.last_cpu = time.process_time()


def gen_problem(rng, nmin=1, nmax=5, kinds=('lin', 'lin', 'rosen', 'exp')):
    kind = kinds[int(rng.integers(len(kinds)))]
    if kind == 'exp':
        n = 2 if nmin <= 2 else nmin
        kind = 'exp' if n == 2 else 'lin'
    else:
        n = int(rng.integers(nmin, nmax + 1))
    if kind == 'rosen' and n < 2:
        kind = 'lin'
    if kind == 'lin':
        m = int(rng.integers(max(1, n - 1), n + 5))
    elif kind == 'rosen':
        m = 2 * (n - 1)
    else:
        m = int(rng.integers(3, 8))
    pseed = int(rng.integers(1 << 30))
    x0 = np.round(rng.normal(size=n), 3)
    if kind == 'exp':
        x0 = np.array([1.0, -0.5]) + np.round(0.2 * rng.normal(size=2), 3)
    return {'kind': kind, 'n': n, 'm': m, 'pseed': pseed, 'x0': hxl(x0), 'noise': float(0.0).hex(), 'nan_at': None,
            'argsf': None}


def make_objfun(prob, counter):
    kind, n, m = prob['kind'], prob['n'], prob['m']
    r = np.random.default_rng((prob['pseed'], 1))
    noise_rng = np.random.default_rng((prob['pseed'], 2))
    sd = float.fromhex(prob['noise'])
    nan_at = prob.get('nan_at')
    if kind == 'lin':
        A = r.normal(size=(m, n))
        b = r.normal(size=m)
        C = r.normal(size=(m, n))

        def base(x):
            return A.dot(x) - b + 0.05 * np.sin(C.dot(x))
    elif kind == 'rosen':
        def base(x):
            out = np.zeros(2 * (n - 1))
            out[0::2] = 10.0 * (x[1:] - x[:-1] ** 2)
            out[1::2] = 1.0 - x[:-1]
            return out
    elif kind == 'exp':
        t = np.linspace(0.0, 1.0, m)
        y = 1.3 * np.exp(-0.7 * t) + 0.01 * r.normal(size=m)

        def base(x):
            return x[0] * np.exp(np.minimum(x[1] * t, 50.0)) - y
    else:
        raise ValueError('unknown problem kind %r' % kind)

    def objfun(x, *args):
        counter.calls += 1
        counter.last_cpu = time.process_time()
        if np.any(np.isnan(x)):
            counter.nan_x_calls += 1
        out = base(np.asarray(x, dtype=float))
        if args:
            out = out + args[0]
        if sd > 0.0:
            out = out * (1.0 + sd * noise_rng.normal(size=out.shape))
        if nan_at is not None and counter.calls == nan_at:
            out = out * np.nan
        return out
    return objfun


def make_projection(p):
    t = p['t']
    if t == 'ball':
        rad = float.fromhex(p['r'])
        return lambda x: x * (rad / max(rad, float(np.linalg.norm(x))))
    if t == 'box':
        lo, hi = float.fromhex(p['lo']), float.fromhex(p['hi'])
        return lambda x: np.minimum(np.maximum(x, lo), hi)
    if t == 'half':
        a = unhxl(p['a'])
        b = float.fromhex(p['b'])
        aa = float(a.dot(a))

        def proj(x):
            s = float(a.dot(x)) - b
            return x - (s / aa) * a if s > 0.0 else x.copy()
        return proj
    raise ValueError('unknown projection %r' % t)


def build_call(case, counter):
    prob = case['prob']
    n = prob['n']
    objfun = make_objfun(prob, counter)
    x0 = unhxl(prob['x0'])
    kw = {}
    for name, e in case.get('args', {}).items():
        kw[name] = dec(e)
    if prob.get('argsf') is not None:
        kw['argsf'] = (float.fromhex(prob['argsf']),)
    b = case.get('bounds')
    if b is not None:
        lo = unhxl(b['lo']) if b['lo'] is not None else None
        hi = unhxl(b['hi']) if b['hi'] is not None else None
        if b.get('as2d'):
            lo = lo.reshape((1, -1)) if lo is not None else None
            hi = hi.reshape((1, -1)) if hi is not None else None
        kw['bounds'] = (lo, hi)
    if case.get('proj'):
        kw['projections'] = [make_projection(p) for p in case['proj']]
    rg = case.get('regu')
    if rg is not None:
        lam = float.fromhex(rg['lam'])
        if rg.get('use_args'):
            kw['h'] = lambda x, l: l * float(np.sum(np.abs(x)))
            kw['argsh'] = (lam,)
            if rg.get('prox', True):
                kw['prox_uh'] = lambda x, u, l: np.sign(x) * np.maximum(np.abs(x) - l * u, 0.0)
                kw['argsprox'] = (lam,)
        else:
            kw['h'] = lambda x: lam * float(np.sum(np.abs(x)))
            if rg.get('prox', True):
                kw['prox_uh'] = lambda x, u: np.sign(x) * np.maximum(np.abs(x) - lam * u, 0.0)
        if 'lh' in rg:
            kw['lh'] = dec(rg['lh'])
    ns = case.get('nsamples')
    if ns is not None:
        kw['nsamples'] = lambda delta, rho, it, nruns: ns
    up = case.get('user_params')
    if up is not None:
        kw['user_params'] = dict((k, dec(e)) for (k, e) in up)
    return objfun, x0, kw


# ---------------------------------------------------------------------------------------------------- running
class _Hang(BaseException):
    pass


class _Slow(BaseException):
    pass


class _Watch(object):
    """CPU-time watchdog (SIGPROF): a run is declared hung when it burns CPU_NOEVAL_LIMIT seconds of process CPU time
    without evaluating the objective (the solver's own budget, maxfun, only bounds evaluations).  A run that keeps
    evaluating but needs more than CPU_TOTAL_LIMIT seconds is abandoned as 'slow' and not judged.  CPU time, not wall
    time, so that a loaded machine does not produce false alarms; does not touch the caller's SIGALRM."""

    def __init__(self, counter, total_limit=None):
        self.counter = counter
        self.total_limit = CPU_TOTAL_LIMIT if total_limit is None else total_limit

    def __enter__(self):
        self.t0 = time.process_time()
        self.counter.last_cpu = self.t0

        def handler(signum, frame):
            now = time.process_time()
            if now - self.counter.last_cpu > CPU_NOEVAL_LIMIT:
                raise _Hang('no objective evaluation for %.1f s of CPU time (after %d evaluations)'
                            % (now - self.counter.last_cpu, self.counter.calls))
            if now - self.t0 > self.total_limit:
                raise _Slow('%.1f s of CPU time in one solve (%d evaluations)' % (now - self.t0, self.counter.calls))
        self.old = signal.signal(signal.SIGPROF, handler)
        signal.setitimer(signal.ITIMER_PROF, 0.5, 0.5)
        return self

    def __exit__(self, *a):
        signal.setitimer(signal.ITIMER_PROF, 0.0, 0.0)
        signal.signal(signal.SIGPROF, self.old)
        return False


def _dfols_frame(tb):
    """innermost frame inside the dfols package: (module, function, line)"""
    best = None
    for fr in traceback.extract_tb(tb):
        fn = fr.filename.replace('\\', '/')
        if '/dfols/' in fn:
            best = (os.path.splitext(os.path.basename(fn))[0], fr.name, fr.lineno)
    return best


def run_case(case):
    """one call of solve; returns a JSON-able outcome.  A 'hang' verdict is confirmed by a second run with a ten times
    longer no-evaluation limit: single steps with projections can legitimately burn several seconds of CPU (6.1 s was
    measured for a 5-variable Dykstra case), and only a loop that never comes back is a hang."""
    global CPU_NOEVAL_LIMIT
    out = _run_case_once(case)
    if out.get('kind') == 'hang':
        saved = CPU_NOEVAL_LIMIT
        CPU_NOEVAL_LIMIT = HANG_CONFIRM_FACTOR * saved
        try:
            out = _run_case_once(case, total_limit=HANG_CONFIRM_FACTOR * saved + CPU_TOTAL_LIMIT)
        finally:
            CPU_NOEVAL_LIMIT = saved
    return out


def _run_case_once(case, total_limit=None):
    counter = _Counter()
    objfun, x0, kw = build_call(case, counter)
    np.random.seed(case.get('seed', 0) % (2 ** 32))
    out = {'kind': None}
    buf = io.StringIO()
    with warnings.catch_warnings():
        warnings.simplefilter('ignore')
        old_err = np.seterr(all='ignore')
        try:
            with _Watch(counter, total_limit), contextlib.redirect_stdout(buf):
                soln = dfols.solve(objfun, x0, **kw)
        except _Hang as ex:
            out.update(kind='hang', detail=str(ex), calls=counter.calls)
            return out
        except _Slow as ex:
            out.update(kind='slow', detail=str(ex), calls=counter.calls)
            return out
        except Exception as ex:
            fr = _dfols_frame(sys.exc_info()[2])
            out.update(kind='raised', exc=type(ex).__name__, exc_msg=str(ex)[:200], calls=counter.calls,
                       nan_x_calls=counter.nan_x_calls,
                       where=('%s.%s' % (fr[0], fr[1])) if fr else 'outside_dfols', line=fr[2] if fr else None)
            return out
        finally:
            np.seterr(**old_err)
        out.update(kind='result', calls=counter.calls)
        try:
            out['flag'] = int(soln.flag)
        except Exception:
            out['flag'] = repr(soln.flag)
        out['nf'] = int(soln.nf) if soln.nf is not None else None
        out['msg'] = soln.msg if isinstance(soln.msg, str) else None
        out['input_error_const'] = getattr(soln, 'EXIT_INPUT_ERROR', None)
        out['constants'] = dict((k, int(getattr(soln, k))) for k in dir(soln) if k.startswith('EXIT_'))
        try:
            s = str(soln)
            out['str_ok'] = isinstance(s, str) and len(s) > 0
            out['str_exc'] = None
        except Exception as ex:
            out['str_ok'] = False
            out['str_exc'] = type(ex).__name__
            out['str_exc_msg'] = str(ex)[:200]
    return out


# ---------------------------------------------------------------------------------------------------- documentation
_DOC_CACHE = {}


def documented_exit_names():
    if 'exit' not in _DOC_CACHE:
        txt = open(os.path.join(_REPO, 'docs', 'userguide.rst')).read()
        names = []
        for nm in re.findall(r'soln\.(EXIT_[A-Z_]+)', txt):
            if nm not in names:
                names.append(nm)
        _DOC_CACHE['exit'] = names
    return _DOC_CACHE['exit']


def documented_keys():
    if 'keys' not in _DOC_CACHE:
        txt = open(os.path.join(_REPO, 'docs', 'advanced.rst')).read()
        _DOC_CACHE['keys'] = re.findall(r'^\* :code:`([a-z_]+(?:\.[a-z_A-Z0-9]+)+)`', txt, flags=re.M)
    return _DOC_CACHE['keys']


def table_keys():
    return list(ParameterList(3, 4, 100).params.keys())


def key_info(key, n, npt, maxfun, noise=False):
    P = ParameterList(n, npt, maxfun, objfun_has_noise=noise)
    ty, none_ok, lo, up = P.param_type(key, npt)
    return ty, none_ok, lo, up, P.params[key]


# ---------------------------------------------------------------------------------------------------- judging
def _v(sig, what, case, outcome):
    return dict(signature=sig, what=what, data={'case': case, 'observed': outcome})


def _known_raise(case, o):
    """map an exception on valid input to one of the named known limitations, else None"""
    up = dict((k, dec(e)) for (k, e) in (case.get('user_params') or []))
    n = case['prob']['n']
    npt = dec(case['args']['npt']) if 'npt' in case.get('args', {}) else n + 1
    if npt is None:
        npt = n + 1
    ndirs = up.get('growing.ndirs_initial')
    reduced = ndirs is not None and ndirs < npt - 1
    if o['exc'] == 'RuntimeError' and case.get('proj') and (npt != n + 1 or reduced or up.get('restarts.increase_npt')) \
            and 'initial directions' in o.get('exc_msg', ''):      # (increase_npt: npt != n+1 after the first restart)
        return 'C07:projections_npt_runtimeerror'
    if o['exc'] in ('UnboundLocalError', 'ZeroDivisionError') and case.get('regu') is not None \
            and up.get('func_tol.max_iters') == 0 and o.get('where') == 'trust_region.ctrsbox_sfista':
        # zero S-FISTA iterations: 2*delta/(0*L_h) is a ZeroDivisionError for a Python-float lh and inf for a numpy
        # one, in which case the loop body never runs and 'gnew' is unbound at the return
        return 'C07:sfista_zero_iters'
    # growing phase with npt > n+1: the new direction is orthogonalised against n existing ones, its norm is 0 and
    # controller.add_new_direction_while_growing divides by it - ZeroDivisionError for Python floats; for numpy floats
    # the point becomes NaN, the objective is called with NaN and the next factorisation raises ValueError
    hard_inc = bool(up.get('restarts.increase_npt')) and up.get('restarts.use_soft_restarts') is False
    beyond_n = (reduced and npt > n + 1) or hard_inc
    if o['exc'] == 'ZeroDivisionError' and o.get('where') in ('controller.add_new_direction_while_growing',
                                                              'controller.get_new_direction_for_growing'):
        return 'C07:growing_zero_division'
    if o['exc'] == 'ValueError' and beyond_n and o.get('where') == 'model.factorise_geom_system' \
            and 'infs or NaNs' in o.get('exc_msg', '') and o.get('nan_x_calls', 0) > 0:
        return 'C07:growing_zero_division'
    return None


def judge(case, o):
    """the property's verdict on one outcome: a violation dict or None"""
    exp = case['expect']
    group, label = case['group'], case['label']
    desc = '%s/%s/%s' % (group, label, case.get('vclass', ''))
    if o['kind'] == 'slow' and (exp != 'input_error' or o['calls'] == 0):
        return None          # still busy after CPU_TOTAL_LIMIT: says nothing about the property (for invalid input
                             # with evaluations it does: the input was accepted)
    if exp == 'unknown_key':
        if o['kind'] == 'raised' and o['exc'] == 'ValueError':
            return None
        got = o['exc'] if o['kind'] == 'raised' else ('flag_%s' % o.get('flag') if o['kind'] == 'result' else 'hang')
        return _v('C07:unknown_param_no_valueerror:%s' % got,
                  'unknown parameter name %r: expected ValueError, got %s' % (case['user_params'][-1][0], got), case, o)

    if exp == 'input_error':
        argkind = 'user_param' if group == 'key' else label
        is_err_result = (o['kind'] == 'result' and o['input_error_const'] is not None
                         and o['flag'] == o['input_error_const'])
        if o['kind'] == 'raised' and o['calls'] == 0:
            return _v('C07:input_error_raises:%s:%s' % (argkind, o['exc']),
                      'invalid input (%s) raised %s: %s [%s:%s]' % (desc, o['exc'], o['exc_msg'], o['where'], o['line']),
                      case, o)
        if not is_err_result:
            # the validation let it through: the solver started evaluating (and then returned, raised, or spun)
            if o['kind'] == 'result':
                then = 'flag %s' % o['flag']
            elif o['kind'] == 'raised':
                then = 'later raised %s: %s [%s:%s]' % (o['exc'], o['exc_msg'], o['where'], o['line'])
            else:
                then = 'then did not return: %s' % o['detail']
            if group == 'key':
                vc = case.get('vclass', '')
                if vc == 'bool_for_int':
                    sig = 'C07:bool_accepted_as_int'
                elif vc == 'none_not_allowed':
                    sig = 'C07:none_value_ignored'
                else:
                    sig = 'C07:bad_value_accepted:%s' % label
                return _v(sig, 'user_params {%r: %s} (%s) accepted: %s objective evaluations, %s'
                          % (label, show(case['user_params'][-1][1]), vc, o['calls'], then), case, o)
            return _v('C07:bad_argument_accepted:%s' % label,
                      'invalid argument (%s) accepted: %s objective evaluations, %s' % (desc, o['calls'], then), case, o)
        if o['nf'] != 0 or o['calls'] != 0:
            return _v('C07:input_error_nonzero_evals:%s' % argkind,
                      'input-error result with nf=%s and %s calls of the objective (%s)' % (o['nf'], o['calls'], desc),
                      case, o)
        if not o['msg']:
            return _v('C07:input_error_empty_msg', 'input-error result with empty / non-string msg (%s)' % desc, case, o)
        if not o['str_ok']:
            return _v('C07:str_raises:%s' % o['str_exc'], 'str(soln) failed on an input-error result (%s)' % desc, case, o)
        return None

    # ok / accept
    if o['kind'] == 'raised' and o['exc'] == 'LinAlgError' and \
            any(k == 'interpolation.throw_error_on_nans' and dec(e) is True for (k, e) in (case.get('user_params') or [])):
        return None     # documented: this option asks for numpy.linalg.LinAlgError on NaN data
    if o['kind'] == 'raised':
        sig = _known_raise(case, o)
        if sig is None:
            sig = 'C07:valid_input_raises:%s@%s' % (o['exc'], o['where'])
        return _v(sig, 'valid input (%s) raised %s: %s [%s:%s]' % (desc, o['exc'], o['exc_msg'], o['where'], o['line']),
                  case, o)
    if o['kind'] == 'hang':
        return _v('C07:valid_input_hangs:%s' % (label if group in ('key', 'arg') else 'optionset'),
                  'valid input (%s) did not return: %s' % (desc, o['detail']), case, o)
    if o['input_error_const'] is not None and o['flag'] == o['input_error_const']:
        if group == 'key':
            return _v('C07:good_value_rejected:%s' % label,
                      'user_params {%r: %s} (%s) reported as input error: %s'
                      % (label, show(case['user_params'][-1][1]), case.get('vclass'), o['msg']), case, o)
        return _v('C07:valid_argument_rejected:%s' % label,
                  'valid input (%s) reported as input error: %s' % (desc, o['msg']), case, o)
    names = documented_exit_names()
    doc_flags = set(o['constants'][nm] for nm in names if nm in o['constants'])
    if o['flag'] not in doc_flags:
        return _v('C07:undocumented_flag:%s' % o['flag'], 'flag %s (%r) is not an exit code named in the user guide'
                  % (o['flag'], o['msg']), case, o)
    if not o['msg']:
        return _v('C07:empty_msg', 'result with empty / non-string msg (%s)' % desc, case, o)
    if not o['str_ok']:
        return _v('C07:str_raises:%s' % o['str_exc'], 'str(soln) failed (%s): %s' % (desc, o.get('str_exc_msg')), case, o)
    return None


def check_constants(o, case):
    """clause 4 on one observed result object"""
    out = []
    for nm in documented_exit_names():
        if nm not in o['constants']:
            out.append(dict(signature='C07:exit_constant_missing:%s' % nm,
                            what='result object (flag %s) has no attribute %s named in docs/userguide.rst' % (o['flag'], nm),
                            data={'case': case, 'observed': o, 'constant': nm}))
    return out


# ---------------------------------------------------------------------------------------------------- generators
def _rand_valid_extras(rng, n, light=True):
    """a few valid plain arguments to mix into any case (never changes validity)"""
    args = {}
    if rng.random() < 0.4:
        args['do_logging'] = enc(bool(rng.random() < 0.5))
    if rng.random() < 0.15:
        args['print_progress'] = enc(True)
    if rng.random() < 0.3:
        args['objfun_has_noise'] = enc(True)
    return args


_INTERIOR_CAP = {'tr_radius.alpha1': 0.9, 'tr_radius.alpha2': 0.95, 'tr_radius.gamma_dec': 0.95,
                 'growing.gamma_dec': 0.95}


def interior_value(rng, key, ty, lo, up, default):
    if ty == 'bool':
        return bool(rng.random() < 0.5)
    if ty == 'int':
        if up is not None:
            return int(rng.integers(lo, up + 1))
        base = default if isinstance(default, int) and default > lo else lo + 2
        return int(rng.integers(lo + 1, max(lo + 2, 2 * base) + 1))
    # float
    if up is not None:
        hi = min(up, _INTERIOR_CAP.get(key, up))
        return float(lo + (hi - lo) * rng.uniform(0.05, 0.95))
    base = default if isinstance(default, float) and default > lo else (lo + 1.0)
    return float(lo + (base - lo) * rng.uniform(0.5, 2.0))


def companions(key, value):
    """other parameters that must be set for {key: value} to be a consistent (valid) option set"""
    c = {}
    if key == 'init.run_in_parallel' and value is True:
        c['init.random_initial_directions'] = True
    if key == 'growing.reset_rho' and value is True:
        c['growing.reset_delta'] = True
    if key == 'growing.perturb_trust_region_step' and value is True:
        c['growing.full_rank.use_full_rank_interp'] = False
    if key in ('noise.multiplicative_noise_level', 'noise.additive_noise_level') and value is not None:
        c['noise.quit_on_noise_level'] = True
    if key == 'dykstra.d_tol' and isinstance(value, float) and value < 1e-12:
        c['dykstra.max_iters'] = 5      # d_tol = 0 means 'always run max_iters sweeps': keep that cheap
    return c


def context_for(key, rng, plain=False):
    """(prob, args, bounds, proj, regu, nsamples, user_params-dict) making `key` live"""
    pre = key.split('.')[0]
    ctx = {'args': {}, 'bounds': None, 'proj': None, 'regu': None, 'nsamples': None, 'up': {}}
    nmin, nmax = 2, 4
    kinds = ('lin', 'lin', 'rosen')
    if plain:
        pre = 'plain'
    if pre == 'growing' or key == 'restarts.hard.increase_ndirs_initial_amt':
        nmin = 3
    prob = gen_problem(rng, nmin, nmax, kinds)
    n = prob['n']
    maxfun = int(rng.integers(25, 50))
    if pre == 'noise':
        prob['noise'] = float(0.01).hex()
        ctx['args']['objfun_has_noise'] = enc(True)
    elif pre == 'regression':
        ctx['args']['npt'] = enc(n + 1 + int(rng.integers(1, 4)))
        ctx['up']['regression.num_extra_steps'] = 1
    elif pre == 'restarts':
        ctx['up']['restarts.use_restarts'] = True
        if rng.random() < 0.5:
            prob['noise'] = float(0.01).hex()
        if key.startswith('restarts.soft'):
            prob['noise'] = float(0.01).hex()       # a noisy objective makes the soft restarts actually happen
            if rng.random() < 0.5:
                ctx['up']['restarts.soft.move_xk'] = bool(rng.random() < 0.5)
        elif key.startswith('restarts.hard') or key in ('restarts.increase_npt', 'restarts.increase_npt_amt',
                                                      'restarts.max_npt') or rng.random() < 0.3:
            ctx['up']['restarts.use_soft_restarts'] = False
            ctx['up']['restarts.increase_npt'] = True
            ctx['up']['restarts.max_npt'] = n + 1 + 3
        ctx['args']['rhoend'] = enc(1e-3)
        maxfun = int(rng.integers(50, 80))
    elif pre == 'growing':
        ctx['up']['growing.ndirs_initial'] = int(rng.integers(1, n))
        if key == 'growing.delta_scale_new_dirns' and prob['kind'] != 'lin' and rng.random() < 0.7:
            prob = gen_problem(rng, nmin, nmax, ('lin',)); n = prob['n']
            ctx['up']['growing.ndirs_initial'] = int(rng.integers(1, n))
        if prob['kind'] == 'lin' and rng.random() < (0.8 if key == 'growing.delta_scale_new_dirns' else 0.5):
            prob['m'] = n - 1         # under-determined: solve_main then switches the default growing method by itself
    elif pre in ('dykstra', 'matrix_rank'):
        prob = gen_problem(rng, 2, 3, kinds)
        n = prob['n']
        ctx['proj'] = [{'t': 'ball', 'r': float(2.0).hex()}]
        if rng.random() < 0.5:
            ctx['proj'].append({'t': 'half', 'a': hxl(np.ones(n)), 'b': float(1.0).hex()})
        if key != 'dykstra.max_iters':
            ctx['up']['dykstra.max_iters'] = 20      # the projected-gradient solver calls Dykstra 100*n^2 times a step
        maxfun = int(rng.integers(10, 18))
    elif pre in ('func_tol', 'sfista'):
        prob = gen_problem(rng, 2, 3, ('lin',))
        n = prob['n']
        lam = 0.1
        ctx['regu'] = {'lam': float(lam).hex(), 'lh': enc(lam * math.sqrt(n)), 'prox': True, 'use_args': False}
        ctx['up']['dykstra.max_iters'] = 10         # see random_case: keeps S-FISTA x Dykstra cheap
        if key != 'func_tol.max_iters':
            ctx['up']['func_tol.max_iters'] = 50
        maxfun = int(rng.integers(12, 22))
    elif pre == 'init':
        if rng.random() < 0.5:
            ctx['args']['npt'] = enc(n + 1 + int(rng.integers(0, 3)))
    elif pre == 'logging':
        ctx['up']['logging.save_diagnostic_info'] = True
    else:
        if rng.random() < 0.3:
            lo = unhxl(prob['x0']) - rng.uniform(0.5, 2.0, size=n)
            hi = unhxl(prob['x0']) + rng.uniform(0.5, 2.0, size=n)
            ctx['bounds'] = {'lo': hxl(lo), 'hi': hxl(hi)}
    ctx['args']['maxfun'] = enc(maxfun)
    return prob, ctx


def _mk_case(prob, ctx, up_pairs, seed, group, label, vclass, expect):
    case = {'prob': prob, 'args': dict(ctx['args']), 'bounds': ctx['bounds'], 'proj': ctx['proj'], 'regu': ctx['regu'],
            'nsamples': ctx['nsamples'], 'user_params': up_pairs, 'seed': int(seed), 'group': group, 'label': label,
            'vclass': vclass, 'expect': expect}
    return case


def key_cases(key, rng, plain=False):
    """all value classes for one key on one problem/context"""
    prob, ctx = context_for(key, rng, plain)
    n = prob['n']
    npt = dec(ctx['args']['npt']) if 'npt' in ctx['args'] else n + 1
    maxfun = dec(ctx['args']['maxfun'])
    noise = 'objfun_has_noise' in ctx['args']
    ty, none_ok, lo, up, default = key_info(key, n, npt, maxfun, noise)
    seed = int(rng.integers(1 << 30))
    good, accept, bad = [], [], []      # (vclass, value)
    if ty == 'bool':
        good += [('bool_true', True), ('bool_false', False)]
        bad += [('wrong_type_int', 1), ('wrong_type_int', 0), ('wrong_type_str', 'True'), ('wrong_type_float', 1.0),
                ('wrong_type_list', [True])]
    elif ty == 'int':
        if default is not None:
            good.append(('default', default))
        good.append(('lower_boundary', lo))
        if up is not None:
            good.append(('upper_boundary', up))
        good.append(('interior', interior_value(rng, key, ty, lo, up, default)))
        if key == 'restarts.soft.num_geom_steps':
            # the table has no upper bound: more geometry steps than there are interpolation points is legal
            good.append(('more_than_points', npt + int(rng.integers(0, 4))))
            good.append(('more_than_points', npt + int(rng.integers(1, 6))))
        bad.append(('below_lower', lo - 1))
        bad.append(('far_below_lower', lo - 1000))
        if up is not None:
            bad.append(('above_upper', up + 1))
        inr = lo if up is None else up
        bad += [('wrong_type_float', float(inr)), ('wrong_type_str', str(inr)), ('wrong_type_list', [inr]),
                ('bool_for_int', True), ('bool_for_int', False)]
    elif ty == 'float':
        if default is not None:
            good.append(('default', float(default)))
        good.append(('lower_boundary', float(lo)))
        accept.append(('just_above_lower', float(np.nextafter(lo, np.inf))))
        if up is not None:
            good.append(('upper_boundary', float(up)))
            accept.append(('just_below_upper', float(np.nextafter(up, -np.inf))))
        good.append(('interior', interior_value(rng, key, ty, lo, up, default)))
        bad.append(('just_below_lower', float(np.nextafter(lo, -np.inf))))
        bad.append(('below_lower', float(lo) - 1.0))
        if up is not None:
            bad.append(('just_above_upper', float(np.nextafter(up, np.inf))))
            bad.append(('above_upper', float(up) + 1.0))
        bad.append(('nan', float('nan')))
        inr_int = int(math.ceil(lo)) if up is None else int(math.floor(up))     # an int inside the range
        bad += [('wrong_type_int', inr_int), ('wrong_type_str', repr(float(inr_int))),
                ('wrong_type_list', [float(inr_int)]), ('wrong_type_bool', True)]
    else:
        raise AssertionError('unexpected type %r in the parameter table for %s' % (ty, key))
    if none_ok:
        accept.append(('none_allowed', None))
    else:
        bad.append(('none_not_allowed', None))

    cases = []

    def pairs(value):
        d = dict(ctx['up'])
        d.pop(key, None)
        for k, v in companions(key, value).items():
            d[k] = v
        # keep the context consistent with the tested value
        if key == 'growing.full_rank.use_full_rank_interp' and value is True:
            d.pop('growing.perturb_trust_region_step', None)
        if key == 'restarts.max_npt' and isinstance(value, int) and not isinstance(value, bool):
            pass
        out = [[k, enc(v)] for k, v in d.items()]
        out.append([key, enc(value)])
        return out

    for vclass, val in good:
        c = _mk_case(prob, ctx, pairs(val), seed, 'key', key, vclass, 'ok')
        cases.append(c)
    for vclass, val in accept:
        c = _mk_case(prob, ctx, pairs(val), seed, 'key', key, vclass, 'accept')
        c['args'] = dict(c['args'])
        c['args']['maxfun'] = enc(1)
        # restarts.soft.max_fake_successful_steps defaults to maxfun, whose table lower bound is 1: fine with maxfun=1
        cases.append(c)
    for vclass, val in bad:
        cases.append(_mk_case(prob, ctx, pairs(val), seed, 'key', key, vclass, 'input_error'))
    return cases


def _dyadic(rng, lo, hi, q=64):
    """random multiple of 1/q in [lo, hi] (exactly representable, so sums / differences below are exact)"""
    return float(int(rng.integers(int(lo * q), int(hi * q) + 1))) / q


def arg_cases(rng, count):
    """invalid and boundary-valid solve() arguments"""
    kinds = ['rhobeg_nonpos', 'rhoend_nonpos', 'rhoend_ge_rhobeg', 'rhoend_lt_rhobeg_ok', 'npt_small', 'npt_min_ok',
             'maxfun_nonpos', 'maxfun_one_ok', 'bounds_narrow', 'bounds_gap_exact_ok', 'bounds_narrow+scaling',
             'bounds_gap_exact+scaling_ok', 'bounds_zero_gap', 'bounds_zero_gap+scaling', 'bounds_reversed',
             'bounds_reversed+scaling', 'bounds_shape', 'bounds_shape+scaling', 'bounds_shape+projections',
             'regu_missing_lh', 'regu_lh_nonpos', 'regu_missing_prox', 'regu_missing_lh_and_prox', 'regu_ok',
             'contra_safety_step', 'contra_safety_step_ok', 'contra_full_rank_perturb', 'contra_full_rank_perturb_ok',
             'contra_noise_levels', 'contra_noise_levels_ok', 'contra_parallel_coordinate', 'contra_parallel_ok',
             'contra_reset_rho', 'contra_reset_rho_ok', 'two_invalid']
    cases = []
    for j in range(count):
        kind = kinds[int(rng.integers(len(kinds)))]
        cases.append(arg_case(rng, kind))
    return cases


def arg_case(rng, kind):
    prob = gen_problem(rng, 1 if rng.random() < 0.15 else 2, 4, ('lin', 'lin', 'rosen', 'exp'))
    n = prob['n']
    x0 = unhxl(prob['x0'])
    ctx = {'args': _rand_valid_extras(rng, n), 'bounds': None, 'proj': None, 'regu': None, 'nsamples': None, 'up': {}}
    ctx['args']['maxfun'] = enc(int(rng.integers(10, 30)))
    up = {}
    if rng.random() < 0.3:     # an unrelated valid parameter must not change the verdict
        up['tr_radius.eta1'] = float(rng.uniform(0.05, 0.3))
    expect = 'ok' if kind.endswith('_ok') else 'input_error'
    vclass = ''
    rb = _dyadic(rng, 1.0 / 16, 1.0)      # a rhobeg
    sub = kind
    if kind == 'two_invalid':
        ctx['args']['rhobeg'] = enc(-rb)
        ctx['args']['npt'] = enc(n)
        vclass = 'rhobeg<0,npt=n'
    elif kind == 'rhobeg_nonpos':
        val = [0.0, -0.0, -rb, -1e-300][int(rng.integers(4))]
        ctx['args']['rhobeg'] = enc(val)
        vclass = 'rhobeg=%r' % val
    elif kind == 'rhoend_nonpos':
        val = [0.0, -1e-8, -1.0][int(rng.integers(3))]
        ctx['args']['rhoend'] = enc(val)
        vclass = 'rhoend=%r' % val
    elif kind == 'rhoend_ge_rhobeg':
        which = int(rng.integers(3))
        re_ = [rb, float(np.nextafter(rb, np.inf)), 2.0 * rb][which]
        ctx['args']['rhobeg'] = enc(rb)
        ctx['args']['rhoend'] = enc(re_)
        vclass = ['rhoend=rhobeg', 'rhoend=next_above_rhobeg', 'rhoend=2rhobeg'][which]
    elif kind == 'rhoend_lt_rhobeg_ok':
        ctx['args']['rhobeg'] = enc(rb)
        ctx['args']['rhoend'] = enc(float(np.nextafter(rb, 0.0)) if rng.random() < 0.5 else rb / 2.0)
        vclass = 'rhoend just below / half of rhobeg'
    elif kind == 'npt_small':
        val = [n, n - 1, 0, -1][int(rng.integers(4))]
        ctx['args']['npt'] = enc(val)
        vclass = 'npt=n%+d' % (val - n)
    elif kind == 'npt_min_ok':
        ctx['args']['npt'] = enc(n + 1)
        vclass = 'npt=n+1'
    elif kind == 'maxfun_nonpos':
        val = [0, -1, -100][int(rng.integers(3))]
        ctx['args']['maxfun'] = enc(val)
        vclass = 'maxfun=%d' % val
    elif kind == 'maxfun_one_ok':
        ctx['args']['maxfun'] = enc(1)
        vclass = 'maxfun=1'
    elif kind.startswith('bounds_'):
        scaling = '+scaling' in kind
        # dyadic bounds around a dyadic centre so that xu - xl is computed exactly
        c = np.array([_dyadic(rng, -2.0, 2.0) for _ in range(n)])
        half = np.array([_dyadic(rng, 1.0, 3.0) for _ in range(n)])
        lo, hi = c - half, c + half
        i = int(rng.integers(n))
        if scaling:
            ctx['args']['scaling_within_bounds'] = enc(True)
        if kind in ('bounds_narrow', 'bounds_gap_exact_ok'):
            ctx['args']['rhobeg'] = enc(rb)
            gap = 2.0 * rb if kind.endswith('_ok') else 2.0 * rb - 1.0 / 128
            hi[i] = lo[i] + gap
            vclass = 'gap=2*rhobeg' if kind.endswith('_ok') else 'gap=2*rhobeg-1/128'
        elif kind == 'bounds_narrow+scaling':
            ctx['args']['rhobeg'] = enc(0.5 + 1.0 / 128)      # in scaled variables the gap is 1
            vclass = 'scaled gap 1 < 2*rhobeg'
        elif kind == 'bounds_gap_exact+scaling_ok':
            ctx['args']['rhobeg'] = enc(0.5)
            vclass = 'scaled gap 1 = 2*rhobeg'
        elif kind.startswith('bounds_zero_gap'):
            hi[i] = lo[i]
            vclass = 'xl[i]=xu[i]'
        elif kind.startswith('bounds_reversed'):
            lo, hi = hi, lo
            vclass = 'xl>xu'
        elif kind.startswith('bounds_shape'):
            which = int(rng.integers(5))
            vclass = ['lower_longer', 'lower_shorter', 'upper_longer', 'upper_shorter', 'both_longer'][which]
            if n == 1 and 'shorter' in vclass:
                which, vclass = 0, 'lower_longer'
            if which == 0:
                lo = np.append(lo, lo[-1])
            elif which == 1:
                lo = lo[:-1]
            elif which == 2:
                hi = np.append(hi, hi[-1])
            elif which == 3:
                hi = hi[:-1]
            else:
                lo = np.append(lo, lo[-1])
                hi = np.append(hi, hi[-1])
            if kind.endswith('+projections'):
                ctx['proj'] = [{'t': 'ball', 'r': float(4.0).hex()}]
        ctx['bounds'] = {'lo': hxl(lo), 'hi': hxl(hi)}
    elif kind.startswith('regu_'):
        lam = 0.1
        rg = {'lam': float(lam).hex(), 'prox': True, 'use_args': bool(rng.random() < 0.3)}
        if kind == 'regu_missing_lh':
            vclass = 'lh absent' if rng.random() < 0.5 else 'lh=None'
            if vclass == 'lh=None':
                rg['lh'] = enc(None)
        elif kind == 'regu_lh_nonpos':
            val = [0.0, -1.0, -1e-300][int(rng.integers(3))]
            rg['lh'] = enc(val)
            vclass = 'lh=%r' % val
        elif kind == 'regu_missing_prox':
            rg['lh'] = enc(lam * math.sqrt(n))
            rg['prox'] = False
        elif kind == 'regu_missing_lh_and_prox':
            rg['prox'] = False
        else:
            rg['lh'] = enc(lam * math.sqrt(n))
            ctx['args']['maxfun'] = enc(int(rng.integers(8, 14)))
            up.update({'func_tol.max_iters': 30, 'dykstra.max_iters': 10})
        ctx['regu'] = rg
    elif kind.startswith('contra_'):
        t = bool(True)
        if kind == 'contra_safety_step':
            up.update({'growing.safety.full_geom_step': t, 'growing.safety.reduce_delta': t})
        elif kind == 'contra_safety_step_ok':
            up.update({'growing.safety.full_geom_step': bool(rng.random() < 0.5)})
            up['growing.safety.reduce_delta'] = not up['growing.safety.full_geom_step']
        elif kind == 'contra_full_rank_perturb':
            up['growing.perturb_trust_region_step'] = t
            if rng.random() < 0.5:
                up['growing.full_rank.use_full_rank_interp'] = t
        elif kind == 'contra_full_rank_perturb_ok':
            up.update({'growing.perturb_trust_region_step': t, 'growing.full_rank.use_full_rank_interp': False})
        elif kind == 'contra_noise_levels':
            up.update({'noise.quit_on_noise_level': t, 'noise.multiplicative_noise_level': 0.01,
                       'noise.additive_noise_level': 0.01})
        elif kind == 'contra_noise_levels_ok':
            up['noise.quit_on_noise_level'] = t
            up['noise.multiplicative_noise_level' if rng.random() < 0.5 else 'noise.additive_noise_level'] = 0.01
        elif kind == 'contra_parallel_coordinate':
            up['init.run_in_parallel'] = t
            if rng.random() < 0.5:
                up['init.random_initial_directions'] = False
        elif kind == 'contra_parallel_ok':
            up.update({'init.run_in_parallel': t, 'init.random_initial_directions': t})
        elif kind == 'contra_reset_rho':
            up['growing.reset_rho'] = t
            if rng.random() < 0.5:
                up['growing.reset_delta'] = False
        elif kind == 'contra_reset_rho_ok':
            up.update({'growing.reset_rho': t, 'growing.reset_delta': t})
        vclass = ','.join('%s=%r' % kv for kv in sorted(up.items()) if not kv[0].startswith('tr_radius'))
    else:
        raise AssertionError(kind)
    pairs = [[k, enc(v)] for k, v in up.items()] or None
    return _mk_case(prob, ctx, pairs, int(rng.integers(1 << 30)), 'arg', sub, vclass, expect)


def random_case(rng):
    """a valid problem with a random valid option set"""
    prob = gen_problem(rng, 1, 5)
    n = prob['n']
    x0 = unhxl(prob['x0'])
    ctx = {'args': _rand_valid_extras(rng, n), 'bounds': None, 'proj': None, 'regu': None, 'nsamples': None, 'up': {}}
    feats = []
    noisy = 'objfun_has_noise' in ctx['args']
    if noisy or rng.random() < 0.15:
        prob['noise'] = float(rng.choice([1e-3, 1e-2, 0.1])).hex()
        feats.append('noisy_objective')
    if rng.random() < 0.06:
        prob['nan_at'] = int(rng.integers(1, 12))
        feats.append('nan_at_eval')
    if rng.random() < 0.15:
        prob['argsf'] = float(rng.normal()).hex()
        feats.append('argsf')
    npt = n + 1
    r = rng.random()
    if r < 0.3:
        npt = n + 1 + int(rng.integers(1, n + 3))
        ctx['args']['npt'] = enc(npt)
        feats.append('npt>n+1')
    if rng.random() < 0.5:
        ctx['args']['rhobeg'] = enc(float(rng.uniform(0.02, 1.5)))
        feats.append('rhobeg')
    if rng.random() < 0.5:
        ctx['args']['rhoend'] = enc(float(10.0 ** rng.uniform(-9, -3)))
        feats.append('rhoend')
    maxfun = int(rng.choice([1, 2, npt, npt + 1, 15, 30, 60, 100]))
    if rng.random() < 0.85:
        ctx['args']['maxfun'] = enc(maxfun)
    else:
        ctx['args']['rhoend'] = enc(1e-4)      # default maxfun: stop by rhoend instead
    rhobeg = dec(ctx['args']['rhobeg']) if 'rhobeg' in ctx['args'] else 0.1 * max(float(np.max(np.abs(x0))), 1.0)
    # constraints
    r = rng.random()
    if r < 0.35:
        w = rng.uniform(2.0 * rhobeg + 0.01, 2.0 * rhobeg + 3.0, size=n)
        off = rng.uniform(-0.2, 1.2, size=n)        # x0 may lie outside: documented to be moved with a warning
        lo = x0 - off * w
        hi = lo + w
        which = rng.random()
        b = {'lo': hxl(lo), 'hi': hxl(hi)}
        if which < 0.15:
            b['lo'] = None
        elif which < 0.3:
            b['hi'] = None
        ctx['bounds'] = b
        feats.append('bounds')
        if b['lo'] is not None and b['hi'] is not None and rng.random() < 0.4:
            ctx['args']['scaling_within_bounds'] = enc(True)
            if 'rhobeg' in ctx['args']:
                ctx['args']['rhobeg'] = enc(float(rng.uniform(0.02, 0.45)))
            feats.append('scaling_within_bounds')
    elif r < 0.5:
        pr = [{'t': 'ball', 'r': float(rng.uniform(1.0, 4.0)).hex()}]
        if rng.random() < 0.4:
            pr.append({'t': 'half', 'a': hxl(rng.normal(size=n)), 'b': float(rng.uniform(0.5, 2.0)).hex()})
        if rng.random() < 0.3:
            pr.append({'t': 'box', 'lo': float(-3.0).hex(), 'hi': float(3.0).hex()})
        ctx['proj'] = pr
        feats.append('projections')
        if rng.random() < 0.85 and 'npt' in ctx['args']:       # mostly stay off the known limitation
            del ctx['args']['npt']
            npt = n + 1
            feats.remove('npt>n+1')
    if rng.random() < 0.15:
        lam = float(rng.choice([0.01, 0.1, 1.0]))
        ctx['regu'] = {'lam': lam.hex(), 'lh': enc(lam * math.sqrt(n)), 'prox': True, 'use_args': bool(rng.random() < 0.4)}
        feats.append('regulariser')
        if 'maxfun' not in ctx['args'] or dec(ctx['args']['maxfun']) > 30:
            ctx['args']['maxfun'] = enc(int(rng.integers(8, 30)))
    if noisy and rng.random() < 0.4:
        ctx['nsamples'] = int(rng.integers(1, 4))
        feats.append('nsamples')
    # user parameters
    keys = table_keys()
    nk = int(rng.choice([0, 1, 2, 3, 5]))
    up = {}
    mf = dec(ctx['args']['maxfun']) if 'maxfun' in ctx['args'] else min(100 * (n + 1), 1000)
    for _ in range(nk):
        key = keys[int(rng.integers(len(keys)))]
        if key in up or key in ('logging.save_xk', 'logging.save_rk'):
            continue
        ty, none_ok, lo, upb, default = key_info(key, n, npt, mf, noisy)
        val = interior_value(rng, key, ty, lo, upb, default)
        if key == 'growing.ndirs_initial' and ctx['proj'] and rng.random() < 0.85:
            continue
        if key == 'restarts.max_npt':
            up['restarts.increase_npt'] = True
        up[key] = val
    for key in list(up.keys()):
        for k, v in companions(key, up[key]).items():
            up[k] = v
    # make the set consistent w.r.t. the exclusivity checks of solve()
    if up.get('growing.safety.full_geom_step') and up.get('growing.safety.reduce_delta'):
        up['growing.safety.reduce_delta'] = False
    if up.get('growing.perturb_trust_region_step'):
        up['growing.full_rank.use_full_rank_interp'] = False
    if up.get('init.run_in_parallel'):
        up['init.random_initial_directions'] = True
    if up.get('growing.reset_rho'):
        up['growing.reset_delta'] = True
    if up.get('noise.quit_on_noise_level', noisy):
        if up.get('noise.multiplicative_noise_level') is not None and up.get('noise.additive_noise_level') is not None:
            del up['noise.additive_noise_level']
    if rng.random() < 0.25:
        up.setdefault('restarts.use_restarts', True)
        feats.append('restarts')
        if rng.random() < 0.5:
            up.setdefault('restarts.use_soft_restarts', False)
    if rng.random() < 0.2 and n >= 2 and not (ctx['proj'] and rng.random() < 0.85):
        up.setdefault('growing.ndirs_initial', int(rng.integers(1, n + 1)))
        feats.append('growing')
    if rng.random() < 0.2:
        up.setdefault('logging.save_diagnostic_info', True)
    if ctx['proj']:
        # the projected-gradient solver runs up to 100*n^2 Dykstra calls per step: keep the budget and Dykstra's cap small
        if 'maxfun' not in ctx['args'] or dec(ctx['args']['maxfun']) > 30:
            ctx['args']['maxfun'] = enc(int(rng.integers(8, 30)))
        up['dykstra.max_iters'] = min(up.get('dykstra.max_iters', 20), 20) or 20
    if ctx['regu'] is not None:
        # S-FISTA x Dykstra can cost ~1 s of CPU per iteration with the default caps (500 x 100), and iterations need
        # not evaluate the objective: keep both caps small (in-range values) so that the hang watchdog stays meaningful
        up['func_tol.max_iters'] = min(up.get('func_tol.max_iters', 30), 30) or 30
        up['dykstra.max_iters'] = min(up.get('dykstra.max_iters', 10), 10) or 10
    pairs = [[k, enc(v)] for k, v in up.items()] or None
    case = _mk_case(prob, ctx, pairs, int(rng.integers(1 << 30)), 'random', 'optionset', ','.join(sorted(set(feats))), 'ok')
    return case


def unknown_cases(rng, count):
    keys = table_keys()
    out = []
    for j in range(count):
        k = keys[int(rng.integers(len(keys)))]
        variants = ['foo.bar', '', k + 'x', k.upper(), k.split('.', 1)[1], k.replace('.', '_'), ' ' + k, k + ' ',
                    k.split('.')[0], 'dfols.' + k]
        name = variants[int(rng.integers(len(variants)))]
        if name in keys:
            continue
        prob, ctx = context_for('general.rounding_error_constant', rng, plain=True)
        ty, none_ok, lo, up, default = key_info(k, prob['n'], prob['n'] + 1, 30)
        val = default if default is not None else 0.1
        pairs = []
        if rng.random() < 0.5:
            pairs.append(['tr_radius.eta1', enc(0.2)])
        if rng.random() < 0.25:
            val = None               # an unknown name is an error whatever its value
        pairs.append([name, enc(val)])
        out.append(_mk_case(prob, ctx, pairs, int(rng.integers(1 << 30)), 'unknown', 'unknown_name', name, 'unknown_key'))
    return out


# ---------------------------------------------------------------------------------------------------- interface
def tasks(seed, tier):
    keys = table_keys()
    quick = (tier == 'quick')
    out = []
    chunk = 4 if quick else 2
    reps = 2 if quick else 40          # problems/contexts per key; every other (quick) / fourth (thorough) one is plain
    i = 0
    for rep in range(reps):
        plain = (rep % 2 == 1) if quick else (rep % 4 == 3)
        for j in range(0, len(keys), chunk):
            out.append(('keys', int(seed), i, keys[j:j + chunk], bool(plain)))
            i += 1
    for j in range(10 if quick else 200):
        out.append(('args', int(seed), i, 40))
        i += 1
    for j in range(32 if quick else 640):
        out.append(('random', int(seed), i, 12))
        i += 1
    out.append(('misc', int(seed), i, 30 if quick else 300))
    return out


def _is_nontrivial(case, o):
    if case['expect'] in ('input_error', 'unknown_key'):
        return True
    nondefault = bool(case.get('user_params')) or case.get('bounds') or case.get('proj') or case.get('regu') \
        or any(k != 'maxfun' for k in case.get('args', {}))
    return bool(nondefault) and o.get('calls', 0) > 1


def run_task(task):
    kind, seed, i = task[0], task[1], task[2]
    rng = np.random.default_rng((seed, i))
    cases = []
    extra_violations = []
    stats = {}

    def bump(k, c=1):
        stats[k] = stats.get(k, 0) + c
    if kind == 'keys':
        for key in task[3]:
            cases += key_cases(key, rng, plain=task[4])
    elif kind == 'args':
        cases += arg_cases(rng, task[3])
    elif kind == 'random':
        cases += [random_case(rng) for _ in range(task[3])]
    elif kind == 'misc':
        cases += unknown_cases(rng, task[3])
        known = set(table_keys())
        for dk in documented_keys():
            bump('documented_keys_checked')
            if dk not in known:
                extra_violations.append(dict(signature='C07:documented_key_unknown:%s' % dk,
                                             what='key %s documented in docs/advanced.rst raises ValueError' % dk,
                                             data={'doc_key': dk}))
        undocumented = sorted(known - set(documented_keys()))
        stats['table_keys_not_in_advanced_rst'] = len(undocumented)
        # clause 4 on an input-error object and on a normal one
        for c in (arg_case(rng, 'rhobeg_nonpos'), arg_case(rng, 'maxfun_one_ok')):
            cases.append(c)
    else:
        raise ValueError('unknown task kind %r' % (kind,))

    violations, nontrivial, sample = [], 0, None
    per_sig = {}
    for case in cases:
        o = run_case(case)
        bump('group:' + case['group'])
        bump('expect:' + case['expect'])
        if case['group'] == 'key':
            bump('key:' + case['label'])
            bump('valueclass:' + case['vclass'])
        elif case['group'] == 'arg':
            bump('argkind:' + case['label'])
        elif case['group'] == 'random':
            for f in case['vclass'].split(','):
                if f:
                    bump('feature:' + f)
            bump('n_user_params:%d' % len(case.get('user_params') or []))
        bump('n:%d' % case['prob']['n'])
        if o['kind'] == 'result':
            bump('outcome:flag_%s' % o['flag'])
        elif o['kind'] == 'raised':
            bump('outcome:raised_%s' % o['exc'])
        else:
            bump('outcome:' + o['kind'])     # hang / slow
        if _is_nontrivial(case, o):
            nontrivial += 1
        v = judge(case, o)
        vs = [v] if v is not None else []
        if o['kind'] == 'result' and (kind == 'misc' or case['group'] == 'arg'):
            vs += check_constants(o, case)
            bump('constants_checked')
        for v in vs:
            bump('violation:' + v['signature'])
            per_sig[v['signature']] = per_sig.get(v['signature'], 0) + 1
            if per_sig[v['signature']] <= 2:
                violations.append(v)
        if sample is None and case['expect'] == 'input_error' and o['kind'] == 'result':
            sample = {'case': case, 'observed': dict((k, o[k]) for k in ('flag', 'nf', 'calls', 'msg'))}
    violations += extra_violations
    for v in extra_violations:
        bump('violation:' + v['signature'])
    return dict(evaluations=len(cases), nontrivial=nontrivial, violations=violations, stats=stats, sample=sample)


def replay(data):
    if 'doc_key' in data:
        if data['doc_key'] in set(table_keys()):
            return None
        return dict(signature='C07:documented_key_unknown:%s' % data['doc_key'],
                    what='key %s documented in docs/advanced.rst raises ValueError' % data['doc_key'], data=data)
    case = data['case']
    o = run_case(case)
    if 'constant' in data:
        for v in (check_constants(o, case) if o['kind'] == 'result' else []):
            if v['data']['constant'] == data['constant']:
                return v
        return None
    return judge(case, o)
