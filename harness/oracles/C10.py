"""Oracle for C10: exit flags and messages tell the truth.  Runs the real dfols.solve over many ways of ending, see RULE.

Signatures:
  C10:flag_small_but_obj_gt_tol            success + 'Objective is sufficiently small' but obj > max(abs_tol, rel_tol*f(x0))
  C10:flag_rhoend_but_rho_gt_rhoend        success + 'rho has reached rhoend' but the last recorded rho is larger
  C10:flag_rhoend_but_rho_lt_rhoend        ... is smaller than the (per restart rescaled) rhoend
  C10:flag_rhoend_but_no_iterations        ... and the diagnostic table is empty
  C10:maxfun_warning_but_nf_ne_maxfun      max-evaluations warning with nf != maxfun
  C10:max_restarts_msg_but_fewer_runs      'maximum number of unsuccessful restarts' with nruns below that maximum
  C10:nruns_ne_one_plus_restarts           soln.nruns != 1 + number of restarts performed (counted from the log)
  C10:nruns_lt_table_run_counter           the diagnostic table's run counter exceeds soln.nruns - 1
  (each of the above gets the suffix :faulty_objective when it happened in a run of the 'faulty' scenario, i.e. the
   objective had returned NaN / inf / 1e200 - such runs exist only to exercise the next clause)
  C10:success_flag_nonfinite_obj:<small_objective|rhoend|max_restarts|noise_level|other>
                                           success flag attached to a non-finite objective, by kind of success message
"""
# ======================================================================================================================
# shared core: problem specs, builders, recording objective wrapper.  This block is duplicated verbatim in
# C08.py / C10.py / C18.py / C19.py (the oracle modules are required to be self-contained) - keep the copies in sync.
# ======================================================================================================================
import copy, logging, math, os, sys, warnings

for _v in ('OPENBLAS_NUM_THREADS', 'OMP_NUM_THREADS', 'MKL_NUM_THREADS'):   # tiny matrices: BLAS threads only hurt
    os.environ.setdefault(_v, '1')

_REPO = os.environ.get('DFOLS_REPO', '/repo')
if _REPO not in sys.path:
    sys.path.insert(0, _REPO)
import numpy as np
import dfols

logging.getLogger('dfols').addHandler(logging.NullHandler())   # the solver logs some warnings unconditionally


def hx(v):
    """float / array -> hex string / nested list of hex strings (exact)"""
    if v is None:
        return None
    a = np.asarray(v, dtype=float)
    if a.ndim == 0:
        return float(a).hex()
    return [hx(e) for e in a]


def unhx(v):
    if v is None:
        return None
    if isinstance(v, str):
        return float.fromhex(v)
    return np.array([unhx(e) for e in v], dtype=float)


def enc_params(d):
    """user_params with floats written as 'f:<hex>' (ints, bools, None stay as they are)"""
    out = {}
    for k, v in d.items():
        if isinstance(v, bool) or v is None or isinstance(v, int):
            out[k] = v
        else:
            out[k] = 'f:' + float(v).hex()
    return out


def dec_params(d):
    out = {}
    for k, v in d.items():
        out[k] = float.fromhex(v[2:]) if isinstance(v, str) and v.startswith('f:') else v
    return out


class FaultError(Exception):
    pass


def _resid_fun(spec):
    kind = spec['kind']
    n, m = spec['n'], spec['m']
    if kind == 'rosen':
        def f(x):
            r = np.empty(2 * (n - 1))
            r[0::2] = 10.0 * (x[1:] - x[:-1] ** 2)
            r[1::2] = 1.0 - x[:-1]
            return r
        return f
    A, b = unhx(spec['A']), unhx(spec['b'])
    if kind == 'lin':
        return lambda x: A.dot(x) - b
    if kind == 'nl':
        return lambda x: A.dot(x) - b + 0.5 * np.sin(A.dot(x))
    raise ValueError('unknown problem kind %r' % (kind,))


def _make_projection(p):
    if p[0] == 'ball':
        c, r = unhx(p[1]), unhx(p[2])
        return lambda x: dfols.util.pball(x, c, r)
    if p[0] == 'box':
        l, u = unhx(p[1]), unhx(p[2])
        return lambda x: dfols.util.pbox(x, l, u)
    if p[0] == 'halfspace':          # {x : a.x <= beta}
        a, beta = unhx(p[1]), unhx(p[2])
        aa = float(a.dot(a))
        return lambda x: x - (max(float(a.dot(x)) - beta, 0.0) / aa) * a
    raise ValueError('unknown projection %r' % (p[0],))


class Rec(object):
    """the user's residual function: counts calls, records (x, r) of every call, optionally injects one fault.
    fault = [k, kind, which, persist]: at call k (and at every later call if persist) the returned vector gets
    entry 0 ('one') or all entries ('all') replaced by NaN / +inf / -inf / 1e200, or FaultError is raised."""
    VALUES = {'nan': float('nan'), 'pinf': float('inf'), 'ninf': float('-inf'), 'big': 1e200}

    def __init__(self, spec, fault=None):
        self.f = _resid_fun(spec)
        self.lam = unhx(spec.get('reg'))
        self.sigma = unhx(spec.get('noise'))
        self.noise_rng = np.random.default_rng(spec.get('noise_seed', 0)) if self.sigma else None  # never the global RNG
        self.fault = fault
        self.xs, self.rs = [], []
        self.ncalls = 0
        self.delivered_at = None      # first call at which the fault was delivered
        self.exc = None
        self.calls_after_exc = 0

    def __call__(self, x):
        self.ncalls += 1
        if self.exc is not None:
            self.calls_after_exc += 1
        self.xs.append(np.array(x, dtype=float, copy=True))
        r = self.f(x)
        if self.noise_rng is not None:
            r = r + self.sigma * self.noise_rng.standard_normal(len(r))
        if self.fault is not None:
            k, kind, which, persist = self.fault
            if self.ncalls == k or (persist and self.ncalls > k):
                if self.delivered_at is None:
                    self.delivered_at = self.ncalls
                if kind == 'raise':
                    self.rs.append(None)
                    self.exc = FaultError('injected at call %d' % self.ncalls)
                    raise self.exc
                r = np.array(r, dtype=float, copy=True)
                if which == 'all':
                    r[:] = self.VALUES[kind]
                else:
                    r[0] = self.VALUES[kind]
        self.rs.append(np.array(r, dtype=float, copy=True))
        return r

    def hval(self, x):
        return 0.0 if self.lam is None else self.lam * float(np.sum(np.abs(x)))

    def obj(self, j):
        """objective value of call j (0-based) as the solver defines it: sum of squares (+ regulariser)"""
        r = self.rs[j]
        if r is None:
            return float('nan')
        with np.errstate(all='ignore'):
            return float(np.dot(r, r)) + self.hval(self.xs[j])


class Problem(object):
    pass


def build(spec, fault=None):
    """spec (pure JSON data, floats in hex) -> Problem with fresh caller-side objects and solve() keyword arguments"""
    P = Problem()
    P.spec = spec
    P.n = spec['n']
    P.rec = Rec(spec, fault)
    x0 = unhx(spec['x0'])
    P.x0 = x0.astype(int) if spec.get('x0_int') else x0
    P.lo, P.hi = unhx(spec.get('lo')), unhx(spec.get('hi'))
    P.bounds = None if (P.lo is None and P.hi is None) else (P.lo, P.hi)
    P.projections = [_make_projection(p) for p in spec.get('proj') or []]
    P.user_params = dec_params(spec.get('params') or {})
    P.rhobeg, P.rhoend = unhx(spec.get('rhobeg')), unhx(spec['rhoend'])
    kw = dict(bounds=P.bounds, rhoend=P.rhoend, maxfun=spec['maxfun'], user_params=P.user_params,
              objfun_has_noise=bool(spec.get('has_noise')), scaling_within_bounds=bool(spec.get('scaling')),
              do_logging=bool(spec.get('do_logging', False)))
    if P.projections:
        kw['projections'] = P.projections
    if spec.get('npt') is not None:
        kw['npt'] = spec['npt']
    if P.rhobeg is not None:
        kw['rhobeg'] = P.rhobeg
    ns = spec.get('nsamples', 1)
    if ns != 1:
        if isinstance(ns, int):
            kw['nsamples'] = lambda delta, rho, it, nruns: ns
        else:                         # ['byrun', a, b] -> a + b*nruns
            kw['nsamples'] = lambda delta, rho, it, nruns: ns[1] + ns[2] * nruns
    if spec.get('reg') is not None:
        lam = unhx(spec['reg'])
        kw['h'] = lambda x: lam * float(np.sum(np.abs(x)))
        kw['lh'] = lam * math.sqrt(P.n)
        kw['prox_uh'] = lambda x, u: np.sign(x) * np.maximum(np.abs(x) - lam * u, 0.0)
    P.kw = kw
    # effective values the solver will use (documented defaults)
    P.npt_eff = spec['npt'] if spec.get('npt') is not None else P.n + 1
    if P.rhobeg is not None:
        P.rhobeg_eff = P.rhobeg
    else:
        P.rhobeg_eff = 0.1 if (spec.get('scaling') and P.lo is not None and P.hi is not None and not P.projections) \
            else 0.1 * max(float(np.max(np.abs(x0))), 1.0)
    return P


class _QuietStderr(object):
    """LAPACK's xerbla prints ' ** On entry to DLASCL parameter number 4 had an illegal value' (on fd 1 with this
    OpenBLAS build, fd 2 elsewhere) when the solver takes 2-norms of non-finite matrices; silence both descriptors
    for the duration of the solve call only"""
    def __enter__(self):
        self.saved = []
        try:
            sys.stdout.flush()
            sys.stderr.flush()
            nul = os.open(os.devnull, os.O_WRONLY)
            for fd in (1, 2):
                self.saved.append((fd, os.dup(fd)))
                os.dup2(nul, fd)
            os.close(nul)
        except (OSError, ValueError):
            pass

    def __exit__(self, *a):
        for fd, keep in self.saved:
            os.dup2(keep, fd)
            os.close(keep)
        return False


def run_solve(P, npseed=None):
    """call dfols.solve on the problem; returns (soln, exception).  Seeds the global NumPy RNG first so that every
    run is replayable even where the solver draws random directions."""
    np.random.seed(P.spec.get('npseed', 0) if npseed is None else npseed)
    with warnings.catch_warnings(), np.errstate(all='ignore'), _QuietStderr():
        warnings.simplefilter('ignore')
        try:
            return dfols.solve(P.rec, P.x0, **P.kw), None
        except Exception as ex:
            return None, ex


def gen_problem(rng, cfg, zero_resid=None):
    """random small least-squares problem in configuration cfg; returns a spec dict without budgets / params.
    cfg in plain | bounds | scaled | proj | reg (regularised) ; other settings are added by the callers."""
    n = int(rng.integers(2, 4 if cfg in ('proj', 'reg') else 5))     # projections / S-FISTA are slow in pure Python
    kind = str(rng.choice(['lin', 'rosen', 'nl']))
    if zero_resid is None:
        zero_resid = bool(rng.random() < 0.5)
    spec = dict(kind=kind, n=n, cfg=cfg)
    if kind == 'rosen':
        m = 2 * (n - 1)
        xstar = np.ones(n)
        x0 = np.where(np.arange(n) % 2 == 0, -1.2, 1.0) + 0.2 * rng.normal(size=n)
    else:
        m = n + int(rng.integers(0, 4))
        A = rng.normal(size=(m, n))
        xstar = rng.normal(size=n)
        b = A.dot(xstar) + (0.5 * np.sin(A.dot(xstar)) if kind == 'nl' else 0.0)
        if not zero_resid:
            b = b + 0.5 * rng.normal(size=m)
        x0 = xstar + float(rng.choice([0.3, 1.0, 3.0])) * rng.normal(size=n)
        spec['A'], spec['b'] = hx(A), hx(b)
    spec['m'] = m
    spec['zero_resid'] = bool(zero_resid or kind == 'rosen')
    rhobeg = None
    if rng.random() < 0.6:
        rhobeg = float(rng.choice([0.05, 0.1, 0.3, 1.0]))
    if cfg in ('bounds', 'scaled') or (cfg in ('proj', 'reg') and rng.random() < 0.5):
        rb = rhobeg if rhobeg is not None else 0.1 * max(float(np.max(np.abs(x0))), 1.0)
        lo = np.minimum(x0, xstar) - rng.uniform(0.1, 2.0, size=n)
        hi = np.maximum(x0, xstar) + rng.uniform(0.1, 2.0, size=n)
        for j in range(n):                       # make some bounds active at the solution / at x0, x0 sometimes outside
            u = rng.random()
            if u < 0.2:
                hi[j] = xstar[j] - rng.uniform(0.05, 0.5)
            elif u < 0.4:
                lo[j] = xstar[j] + rng.uniform(0.05, 0.5)
            elif u < 0.5:
                lo[j] = x0[j]
            elif u < 0.6:
                hi[j] = x0[j] - 0.01
        if cfg == 'scaled':
            hi = hi + np.array([10.0 ** int(rng.integers(0, 3)) for _ in range(n)])
            rhobeg = None if rng.random() < 0.5 else float(rng.choice([0.05, 0.1, 0.3]))
            spec['scaling'] = True
        else:
            gap = 2.5 * rb
            bad = hi - lo < gap
            hi[bad] = lo[bad] + gap
        spec['lo'], spec['hi'] = hx(lo), hx(hi)
    if cfg == 'proj':
        # feasible set = ball [& halfspace] [& box] with non-empty interior around z (z near, not at, the minimiser)
        z = xstar + 0.3 * rng.normal(size=n)
        c = z + 0.5 * rng.normal(size=n)
        rad = float(np.linalg.norm(z - c) + rng.uniform(0.3, 1.0))
        proj = [['ball', hx(c), hx(rad)]]
        if spec.get('lo') is None and rng.random() < 0.6:      # at most two user sets + box: Dykstra is slow in pure Python
            a = rng.normal(size=n)
            proj.append(['halfspace', hx(a), hx(float(a.dot(z)) + rng.uniform(0.3, 1.0) * float(np.linalg.norm(a)))])
        spec['proj'] = proj
        if spec.get('lo') is not None:
            spec['lo'] = hx(np.minimum(unhx(spec['lo']), z - 0.3))
            spec['hi'] = hx(np.maximum(unhx(spec['hi']), z + 0.3))
    if cfg == 'reg':
        spec['reg'] = hx(float(rng.choice([0.01, 0.1, 0.5])))
    spec['x0'] = hx(x0)
    spec['rhobeg'] = hx(rhobeg)
    spec['rhoend'] = hx(1e-8)
    spec['npseed'] = int(rng.integers(0, 2 ** 31 - 1))
    return spec


def fix_radii(spec):
    """keep the generated input valid: rhoend well below the rhobeg the solver will use"""
    if spec.get('rhobeg') is not None:
        rb = float(unhx(spec['rhobeg']))
    elif spec.get('scaling'):
        rb = 0.1
    else:
        rb = 0.1 * max(float(np.max(np.abs(unhx(spec['x0'])))), 1.0)
    if float(unhx(spec['rhoend'])) > 0.1 * rb:
        spec['rhoend'] = hx(0.01 * rb)
    return spec


def clean_float(v):
    return None if v is None else (float(v) if math.isfinite(float(v)) else repr(float(v)))


def result_summary(soln):
    if soln is None:
        return None
    return dict(flag=int(soln.flag), msg=str(soln.msg), nf=int(soln.nf), nx=int(soln.nx), nruns=int(soln.nruns),
                obj=hx(soln.obj) if soln.obj is not None else None, x=hx(soln.x) if soln.x is not None else None)


def bump(d, key, n=1):
    d[key] = d.get(key, 0) + n


def merge_counts(dst, src):
    for k, v in src.items():
        if isinstance(v, dict):
            merge_counts(dst.setdefault(k, {}), v)
        else:
            dst[k] = dst.get(k, 0) + v
# ============================================================ end of shared core ======================================

RULE = ("Cases: one call of dfols.solve on a random small least-squares problem (linear / Rosenbrock / mildly nonlinear, "
        "n=2..4; plain, bounds, scaled, occasionally projections or a regulariser) under a scenario chosen to reach a "
        "particular way of ending: small_obj (zero-residual problem, model.abs_tol 1e-12..1e-4, model.rel_tol 1e-20..1e-4), "
        "rhoend (rhoend 1e-8..1e-2), budget (maxfun 1..3n+3, also smaller than the number of samples at x0), soft / hard "
        "restarts (restarts.max_unsuccessful_restarts 1..3, restarts.rhoend_scale 0.1..1, auto-detect on/off, increase_npt), "
        "noisy (objfun_has_noise, sample averaging, noise-level exits), slow (slow-progress exits), false_success, growing, "
        "and faulty (NaN / inf / 1e200 returned at one call or at all calls - the only way to make the 'success flag "
        "never with a non-finite objective' clause bite).  Always logging.save_diagnostic_info=True; restarts are counted "
        "independently from the solver's log records ('Restarting from finish point' = hard restart, 'Soft restart [' "
        "followed by a new '*** Iter' record = completed soft restart).  A run is non-trivial when the antecedent of at "
        "least one message clause holds (success+small objective, success+rhoend, max-evaluations warning, max "
        "unsuccessful restarts message), or at least one restart was performed, or a non-finite value was returned.")

SCENARIOS = ['small_obj', 'rhoend', 'budget', 'soft', 'hard', 'noisy', 'slow', 'false_success', 'growing', 'faulty']
OBJ_RTOL = 1e-12


class _Capture(logging.Handler):
    """collects the few log records the oracle needs to count restarts"""
    def __init__(self):
        logging.Handler.__init__(self, logging.DEBUG)
        self.events = []

    def emit(self, record):
        m = record.msg
        if isinstance(m, str):
            if m.startswith('*** Iter '):
                self.events.append('iter')
            elif m.startswith('Soft restart ['):
                self.events.append('soft')
            elif m.startswith('Restarting from finish point'):
                self.events.append('hard')


def make_spec(seed, i, j):
    rng = np.random.default_rng((seed, i, j, 10))
    sc = SCENARIOS[int(rng.integers(0, len(SCENARIOS)))]
    u = rng.random()
    cfg = 'plain' if u < 0.4 else 'bounds' if u < 0.7 else 'scaled' if u < 0.85 else 'proj' if u < 0.93 else 'reg'
    if sc == 'growing' and cfg in ('proj', 'reg'):
        cfg = 'plain'
    spec = gen_problem(rng, cfg, zero_resid=True if sc == 'small_obj' else (False if sc == 'rhoend' else None))
    spec['scenario'] = sc
    spec['do_logging'] = True
    n = spec['n']
    heavy = cfg in ('proj', 'reg')
    params = {'logging.save_diagnostic_info': True, 'logging.save_poisedness': bool(rng.random() < 0.15)}
    spec['maxfun'] = int(rng.choice([60, 100, 150])) if not heavy else int(rng.choice([12, 20, 30]))
    spec['rhoend'] = hx(float(rng.choice([1e-8, 1e-6, 1e-4, 1e-2])))
    if cfg == 'reg':
        params['func_tol.max_iters'] = int(rng.choice([30, 60]))
    if cfg == 'proj' and rng.random() < 0.5:
        params['dykstra.max_iters'] = 30
    if rng.random() < 0.3 and not heavy:
        spec['npt'] = n + 1 + int(rng.integers(1, n + 1))
    if sc == 'small_obj' or rng.random() < 0.3:
        params['model.abs_tol'] = float(rng.choice([1e-12, 1e-8, 1e-4, 1e-2]))
        params['model.rel_tol'] = float(rng.choice([1e-20, 1e-10, 1e-4, 1e-2]))
    if sc == 'rhoend' and rng.random() < 0.5:
        # rho reductions with a legal but extreme factor (alpha1 in [0,1]; below 1/250 the reduction must still stop at rhoend)
        params['tr_radius.alpha1'] = float(rng.choice([1e-4, 1e-3, 0.05, 0.5]))
        spec['rhoend'] = hx(float(rng.choice([1e-8, 1e-6, 1e-4])))
    if sc == 'budget':
        spec['maxfun'] = int(rng.integers(1, 3 * n + 4))
        if rng.random() < 0.5:
            spec['nsamples'] = int(rng.integers(2, 5))
    if sc in ('soft', 'hard', 'false_success') or (sc in ('slow', 'faulty', 'noisy') and rng.random() < 0.6):
        params['restarts.use_restarts'] = True
        params['restarts.max_unsuccessful_restarts'] = int(rng.integers(1, 4))
        hard = sc == 'hard' or (sc not in ('soft', 'false_success') and rng.random() < 0.4)
        if hard:
            params['restarts.use_soft_restarts'] = False
            if rng.random() < 0.5:
                params['restarts.hard.use_old_rk'] = False
        if rng.random() < 0.6:
            params['restarts.rhoend_scale'] = float(rng.choice([0.1, 0.5, 0.9]))
        if rng.random() < 0.3:
            params['restarts.auto_detect'] = False
        elif rng.random() < 0.3:
            params['restarts.auto_detect.history'] = int(rng.integers(3, 10))
        if rng.random() < 0.25 and not heavy:
            params['restarts.increase_npt'] = True
            params['restarts.increase_npt_amt'] = int(rng.integers(1, 3))
            params['restarts.max_npt'] = max(spec.get('npt') or n + 1,
                                             min((spec.get('npt') or n + 1) + int(rng.integers(1, 4)), (n + 1) * (n + 2) // 2))
            if params.get('restarts.use_soft_restarts', True) is False and rng.random() < 0.8:
                # as the user guide recommends: no growing phase after a hard restart with more points
                params['restarts.hard.increase_ndirs_initial_amt'] = params['restarts.increase_npt_amt']
        if sc in ('soft', 'hard'):
            spec['rhoend'] = hx(float(rng.choice([1e-4, 1e-3, 1e-2])))
    if sc == 'noisy':
        spec['has_noise'] = True
        spec['noise'] = hx(float(rng.choice([1e-4, 1e-2, 1e-1])))
        spec['noise_seed'] = int(rng.integers(0, 2 ** 31 - 1))
        ns = int(rng.integers(1, 4))
        if ns > 1:
            spec['nsamples'] = ns if rng.random() < 0.7 else ['byrun', ns, 1]
        if rng.random() < 0.6:
            params['noise.additive_noise_level'] = float(unhx(spec['noise'])) ** 2 * spec['m'] * float(rng.choice([1.0, 10.0]))
        if 'restarts.use_restarts' not in params:
            if rng.random() < 0.4:
                params['restarts.use_restarts'] = False          # so that 'All points within noise level' can end the run
            else:
                params['restarts.max_unsuccessful_restarts'] = int(rng.integers(1, 4))   # restarts are on by default here
    if sc == 'slow':
        params['slow.max_slow_iters'] = int(rng.integers(1, 4))
        params['slow.thresh_for_slow'] = float(rng.choice([0.1, 0.5, 2.0]))
        params['slow.history_for_slow'] = int(rng.integers(1, 4))
    if sc == 'false_success':
        params['restarts.soft.max_fake_successful_steps'] = int(rng.integers(1, 4))
        spec['rhoend'] = hx(float(rng.choice([1e-3, 1e-2])))
    if sc == 'growing':
        spec.pop('npt', None)
        params['growing.ndirs_initial'] = int(rng.integers(1, n))
        if rng.random() < 0.4:
            params['growing.reset_delta'] = True
            if rng.random() < 0.5:
                params['growing.reset_rho'] = True
        if rng.random() < 0.3:
            params['growing.num_new_dirns_each_iter'] = 1
        if rng.random() < 0.3:
            params['growing.full_rank.use_full_rank_interp'] = False
            params['growing.perturb_trust_region_step'] = True
    if sc == 'faulty':
        kind = str(rng.choice(['nan', 'pinf', 'ninf', 'big']))
        persist = bool(rng.random() < 0.5)
        k = 1 if (persist and rng.random() < 0.6) else int(rng.integers(1, 3 * n + 6))
        spec['fault'] = [k, kind, 'one' if rng.random() < 0.5 else 'all', persist]
    spec['params'] = enc_params(params)
    return fix_radii(spec)


def tasks(seed, tier):
    ntasks, per = (72, 8) if tier == 'quick' else (480, 24)
    return [dict(seed=int(seed), i=i, count=per, tier=tier) for i in range(ntasks)]


def success_class(msg):
    for key, name in (('sufficiently small', 'small_objective'), ('rhoend', 'rhoend'), ('unsuccessful restarts', 'max_restarts'),
                      ('noise level', 'noise_level')):
        if key in msg:
            return name
    return 'other'


def check_run(spec):
    """one run of the real solver; returns (violations, info)"""
    P = build(spec, spec.get('fault'))
    cap = _Capture()
    lg = logging.getLogger('dfols')
    old_level, old_prop = lg.level, lg.propagate
    lg.setLevel(logging.DEBUG)
    lg.propagate = False
    lg.addHandler(cap)
    try:
        soln, exc = run_solve(P)
    finally:
        lg.removeHandler(cap)
        lg.setLevel(old_level)
        lg.propagate = old_prop
    rec = P.rec
    V = []
    info = dict(exit=None, nontrivial=False, restarts=0, aborted_soft_restart=False, scenario=spec['scenario'], cfg=spec['cfg'],
                clauses=[])

    def viol(sig, what, **extra):
        if rec.delivered_at is not None and not sig.startswith('C10:success_flag_nonfinite_obj'):
            sig += ':faulty_objective'          # the clause failed in a run whose objective returned NaN / inf / 1e200
        d = dict(spec=spec, expect=sig, result=result_summary(soln))
        d.update(extra)
        V.append(dict(signature=sig, what=what, data=d))

    if exc is not None:
        info['exit'] = 'raised %s' % type(exc).__name__       # raising is judged by C07 / C08, not here
        return V, info
    if soln.flag == soln.EXIT_INPUT_ERROR:
        raise RuntimeError('oracle C10 generated an invalid input: %s / %r' % (soln.msg, spec))
    info['exit'] = '%d %s' % (soln.flag, soln.msg)
    up = P.user_params
    abs_tol = up.get('model.abs_tol', 1e-12)
    rel_tol = up.get('model.rel_tol', 1e-20)
    scale = up.get('restarts.rhoend_scale', 1.0)
    max_unsucc = up.get('restarts.max_unsuccessful_restarts', 10)
    df = soln.diagnostic_info
    obj = float(soln.obj)
    msg = str(soln.msg)
    success = soln.flag == soln.EXIT_SUCCESS

    # restarts performed, from the log
    ev = cap.events
    hard = ev.count('hard')
    soft_idx = [t for t, e in enumerate(ev) if e == 'soft']
    soft_done = sum(1 for t in soft_idx if 'iter' in ev[t + 1:])
    info['aborted_soft_restart'] = len(soft_idx) > soft_done
    R = hard + soft_done
    info['restarts'] = R

    # (f) success flag never with a non-finite objective
    if success and not math.isfinite(obj):
        viol('C10:success_flag_nonfinite_obj:' + success_class(msg), 'success flag (%s) with objective %r' % (msg, obj))
    # (a) success + 'Objective is sufficiently small'
    if success and 'sufficiently small' in msg:
        info['nontrivial'] = True
        info['clauses'].append('small_objective')
        ns0 = spec.get('nsamples', 1)
        ns0 = ns0 if isinstance(ns0, int) else ns0[1]
        ns0 = max(1, min(ns0, spec['maxfun'], len(rec.rs)))
        with np.errstate(all='ignore'):
            r0 = np.mean(np.array(rec.rs[:ns0]), axis=0)
            f0 = float(np.dot(r0, r0)) + rec.hval(rec.xs[0])
            thresh = max(abs_tol, rel_tol * f0)
        if not obj <= thresh + OBJ_RTOL * abs(thresh):
            viol('C10:flag_small_but_obj_gt_tol', "'%s' but soln.obj = %.17g > max(abs_tol=%g, rel_tol=%g * f(x0)=%.17g) = %.17g"
                 % (msg, obj, abs_tol, rel_tol, f0, thresh), f0=hx(f0), thresh=hx(thresh))
    # (b) success + 'rho has reached rhoend'
    if success and 'rho has reached rhoend' in msg:
        info['nontrivial'] = True
        info['clauses'].append('rhoend')
        r = P.rhoend
        for _ in range(int(soln.nruns) - 1):
            r = scale * r
        if df is None or len(df) == 0:
            viol('C10:flag_rhoend_but_no_iterations', "'%s' but the diagnostic table has no rows" % msg)
        else:
            rho_last = float(df['rho'].iloc[-1])
            if rho_last > r:
                viol('C10:flag_rhoend_but_rho_gt_rhoend', "'%s' but rho at the last iteration is %.17g > rhoend %.17g "
                     "(rhoend=%g rescaled by %g for %d restarts)" % (msg, rho_last, r, P.rhoend, scale, soln.nruns - 1),
                     rho_last=hx(rho_last), rhoend_eff=hx(r))
            elif rho_last != r:
                viol('C10:flag_rhoend_but_rho_lt_rhoend', "'%s' but rho at the last iteration is %.17g < rhoend %.17g "
                     "(rhoend=%g rescaled by %g for %d restarts)" % (msg, rho_last, r, P.rhoend, scale, soln.nruns - 1),
                     rho_last=hx(rho_last), rhoend_eff=hx(r))
    # (c) max-evaluations warning
    if soln.flag == soln.EXIT_MAXFUN_WARNING:
        info['nontrivial'] = True
        info['clauses'].append('maxfun_warning')
        if int(soln.nf) != spec['maxfun']:
            viol('C10:maxfun_warning_but_nf_ne_maxfun', "'%s' but soln.nf = %d, maxfun = %d (objective calls seen: %d)"
                 % (msg, soln.nf, spec['maxfun'], rec.ncalls))
    # (d) maximum number of unsuccessful restarts
    if 'unsuccessful restarts' in msg:
        info['nontrivial'] = True
        info['clauses'].append('max_restarts')
        if not int(soln.nruns) >= max_unsucc:
            viol('C10:max_restarts_msg_but_fewer_runs', "'%s' but nruns = %d < restarts.max_unsuccessful_restarts = %d"
                 % (msg, soln.nruns, max_unsucc))
    # (e) nruns = 1 + restarts performed
    if R > 0:
        info['nontrivial'] = True
        info['clauses'].append('restarts_performed')
    if rec.delivered_at is not None:
        info['nontrivial'] = True
        info['clauses'].append('nonfinite_value_returned')
    if int(soln.nruns) != 1 + R:
        viol('C10:nruns_ne_one_plus_restarts', 'soln.nruns = %d but %d restarts were performed (%d hard, %d completed soft%s); '
             'exit: %s' % (soln.nruns, R, hard, soft_done, ', one more soft restart begun but ended the run'
                           if info['aborted_soft_restart'] else '', msg), restarts=R)
    if df is not None and len(df) > 0 and int(df['nruns'].max()) > int(soln.nruns) - 1:
        viol('C10:nruns_lt_table_run_counter', 'diagnostic table shows run counter %d but soln.nruns = %d'
             % (int(df['nruns'].max()), soln.nruns))
    return V, info


def run_task(task):
    seed, i = task['seed'], task['i']
    stats = {'exit': {}, 'scenario': {}, 'cfg': {}, 'restarts': {}, 'aborted_soft_restart': 0, 'nontrivial_by_clause': {}}
    violations, evaluations, nontrivial, sample = [], 0, 0, None
    for j in range(task['count']):
        spec = make_spec(seed, i, j)
        V, info = check_run(spec)
        evaluations += 1
        nontrivial += 1 if info['nontrivial'] else 0
        bump(stats['exit'], info['exit'])
        bump(stats['scenario'], info['scenario'])
        bump(stats['cfg'], info['cfg'])
        bump(stats['restarts'], str(min(info['restarts'], 5)) + ('+' if info['restarts'] >= 5 else ''))
        stats['aborted_soft_restart'] += 1 if info['aborted_soft_restart'] else 0
        for c in info['clauses']:
            bump(stats['nontrivial_by_clause'], c)
        violations.extend(V)
        if sample is None and info['nontrivial'] and info['restarts'] > 0:
            sample = dict(scenario=info['scenario'], cfg=info['cfg'], kind=spec['kind'], n=spec['n'], maxfun=spec['maxfun'],
                          params=spec['params'], exit=info['exit'], restarts=info['restarts'])
    return dict(evaluations=evaluations, nontrivial=nontrivial, violations=violations[:40], stats=stats, sample=sample)


def replay(data):
    V, info = check_run(data['spec'])
    if not V:
        return None
    for v in V:
        if v['signature'] == data.get('expect'):
            return v
    return V[0]
