"""C03 -- the returned solution is a point that was really evaluated.
soln.x ~ the x of evaluation point number soln.xmin_eval_num, soln.resid = mean of the residual vectors returned there,
soln.obj = sum(resid^2) + h(x); on every exit route, with averaging, scaling, soft and hard restarts."""
import numpy as np
from .. import solverun as S

X_RTOL = 1e-12       # |soln.x - x_point| <= X_RTOL * (1 + |x_point|)   (rounding of base-point / scaling arithmetic)
R_RTOL = 1e-12       # |soln.resid - mean| <= R_RTOL * (1 + max |sample|)  (running mean vs arithmetic mean)
DYKSTRA_LEVEL = 1e-4   # only used to *classify* an x mismatch on a problem with projections
F_RTOL = 1e-10       # |soln.obj - (sum(resid^2) + h(x))| <= F_RTOL * |expected|

RULE = ("random problems from harness/solverun.gen_problem(profile='general'): everything of C01/C02 plus unconstrained problems, "
        "ball/box projections (about 1 run in 8), residuals that vanish at the projected x0 (exit at x0), model.abs_tol up to 1, "
        "slow-progress settings, budgets below the initialisation cost. Points are the groups of calls that dfols logged under one "
        "point number (when the log disagrees with the calls the run is left to C02). "
        "A run is non-trivial when it returned a result after >= npt+2 evaluations and the returned point is not the first "
        "evaluation point; restarts, averaged returned points and exits at x0 are counted separately in stats.marks.")

TASK_TIMEOUT = 120


def tasks(seed, tier):
    return S.make_tasks('C03', seed, tier, 'general')


def judge(rec):
    prob = rec['problem']
    calls = rec['calls']
    npt = int(prob['kwargs']['npt'])
    s = rec['soln']
    V, marks = [], []

    def add(sig, what, **detail):
        V.append(dict(signature=sig, what=what, detail=detail))

    if s is None:
        marks.append('no_result_timeup' if rec['timeup'] else 'no_result_exception')
        return dict(violations=V, nontrivial=False, marks=marks)
    if s.x is None:
        marks.append('input_error')
        return dict(violations=V, nontrivial=False, marks=marks)
    pts, probs = S.points_from_log(rec)
    if probs or not pts:
        marks.append('log_inconsistent_left_to_C02')
        return dict(violations=V, nontrivial=False, marks=marks)
    # the grouping must be usable: point numbers 1,2,...  and identical x inside a group (else C02's business)
    for k, p in enumerate(pts):
        if p['pt'] != k + 1 or any(not np.array_equal(calls[i][0], calls[p['idx'][0]][0]) for i in p['idx'][1:]):
            marks.append('log_inconsistent_left_to_C02')
            return dict(violations=V, nontrivial=False, marks=marks)

    has_proj = bool(prob.get('proj'))
    has_h = prob.get('reg') is not None
    route = S.exit_route(s)
    sx = np.asarray(s.x, dtype=float)
    k = s.xmin_eval_num
    try:
        k_int = int(k)
        k_ok = (k_int == k) and 1 <= k_int <= len(pts)
    except Exception:
        k_int, k_ok = None, False
    if not k_ok:
        add('C03:eval_num_out_of_range', 'soln.xmin_eval_num = %r but the points evaluated are 1..%d (exit: %s)' % (k, len(pts), route),
            xmin_eval_num=repr(k), npoints=len(pts), route=route)
    else:
        p = pts[k_int - 1]
        xp = calls[p['idx'][0]][0]
        samples = np.array([calls[i][1] for i in p['idx']])
        # -- x
        tol = X_RTOL * (1.0 + np.abs(xp))
        if not np.all(np.abs(sx - xp) <= tol):
            # which point (if any) does soln.x coincide with?  (diagnostic only)
            other = [q['pt'] for q in pts if np.all(np.abs(sx - calls[q['idx'][0]][0]) <= X_RTOL * (1.0 + np.abs(calls[q['idx'][0]][0])))]
            if has_proj:
                # Dykstra stops on a tolerance and is not idempotent: re-projecting a stored point moves it by up to about
                # sqrt(tol) = 1e-5; kept apart from gross mismatches
                cls = 'projections_dykstra_tol' if np.all(np.abs(sx - xp) <= DYKSTRA_LEVEL * (1.0 + np.abs(xp))) else 'projections'
            else:
                cls = 'other_point' if other else 'no_point'
            add('C03:x_mismatch:%s' % cls,
                'soln.x differs from evaluation point %d by %.3g (allowed %.3g); soln.x coincides with point(s) %s; exit: %s, nruns %s'
                % (k_int, float(np.max(np.abs(sx - xp))), float(np.min(tol)), other or 'none', route, s.nruns),
                xmin_eval_num=k_int, soln_x=S.vh(sx), point_x=S.vh(xp), coincides_with=other, route=route)
        # -- resid
        mean = np.mean(samples, axis=0)
        sr = np.asarray(s.resid, dtype=float)
        rtol = R_RTOL * (1.0 + np.max(np.abs(samples), axis=0))
        if sr.shape != mean.shape or not np.all(np.abs(sr - mean) <= rtol):
            cls = 'averaged' if len(p['idx']) > 1 else 'single'
            other = []
            if sr.shape == mean.shape:
                for q in pts:
                    mq = np.mean(np.array([calls[i][1] for i in q['idx']]), axis=0)
                    if np.all(np.abs(sr - mq) <= R_RTOL * (1.0 + np.abs(mq))):
                        other.append(q['pt'])
            add('C03:resid_mismatch:%s' % cls,
                'soln.resid is not the mean of the %d residual vector(s) returned at point %d (max diff %.3g); it is the mean at point(s) %s; exit: %s'
                % (len(p['idx']), k_int, float(np.max(np.abs(sr - mean))) if sr.shape == mean.shape else float('nan'), other or 'none', route),
                xmin_eval_num=k_int, soln_resid=S.vh(sr), mean=S.vh(mean), nsamples=len(p['idx']), matches_points=other, route=route)
        if len(p['idx']) > 1:
            marks.append('returned_point_averaged')
        if k_int == 1:
            marks.append('returned_first_point')
    # -- obj (stated on the returned triple itself)
    sr = np.asarray(s.resid, dtype=float)
    expect = S.objective_of(rec, sr, sx)
    obj = float(s.obj)
    if not (abs(obj - expect) <= F_RTOL * abs(expect) + 1e-300):
        cls = ('regulariser_projections' if has_proj else 'regulariser') if has_h else 'plain'
        add('C03:obj_mismatch:%s' % cls, 'soln.obj = %r but sum(soln.resid^2)%s = %r (rel. diff %.3g); exit: %s'
            % (obj, ' + h(soln.x)' if has_h else '', expect, abs(obj - expect) / max(abs(expect), 1e-300), route),
            obj=S.fh(obj), expected=S.fh(expect), route=route)

    nr = S.count_restarts(rec)
    if nr:
        marks.append('restarted_' + prob.get('tags', {}).get('restarts', '?'))
    if len(calls) <= npt and route == 'maxfun':
        marks.append('budget_within_initialisation')
    if route == 'obj_small' and len(pts) == 1:
        marks.append('exit_at_x0')
    if rec['problem']['kwargs'].get('scaling_within_bounds'):
        marks.append('scaling')
    nontrivial = len(calls) >= npt + 2 and k_ok and k_int > 1
    return dict(violations=V, nontrivial=nontrivial, marks=marks)


def run_task(task):
    return S.run_generic(task, judge, capture_log=True)


def replay(data):
    return S.replay_generic(data, judge, capture_log=True)
