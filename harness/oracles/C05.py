"""Oracle for C05: linear least-squares problems are solved to global optimality.

r(x) = A x - b, A (m x n, m >= n) of full column rank with cond(A) <= 1e3, optional finite bounds, scaling_within_bounds
on/off, npt in [n+1, 2n+1], default maxfun / rhobeg / rhoend.  Demands (exactly the property text):
  * the returned point is feasible (xl <= x <= xu, exactly),
  * ||A x - b||^2 <= f* + 1e-6 (1 + f*), f* = the true constrained minimum (independent reference, KKT-verified),
  * soln.flag == EXIT_SUCCESS.
Self-contained; runs the real dfols from $DFOLS_REPO (default /repo).
"""
import os
os.environ.setdefault('OMP_NUM_THREADS', '1')
os.environ.setdefault('OPENBLAS_NUM_THREADS', '1')
os.environ.setdefault('MKL_NUM_THREADS', '1')
import sys, itertools, warnings
import numpy as np

REPO = os.environ.get('DFOLS_REPO', '/repo')
if REPO not in sys.path:
    sys.path.insert(0, REPO)

PID = 'C05'
RTOL = 1e-6            # property: within 1e-6*(1+f*)
CASES_PER_TASK = 10
NTASKS = {'quick': 256, 'thorough': 5120}

RULE = ("Cases: n uniform in 1..6; m = n + extra with extra in {0 (square), 1, 2, n, 2n, 3n+5} (m >= n because full column rank "
        "is impossible for m < n; 'under-determined' in the quantifier is therefore not reachable inside the property's own "
        "hypothesis); A = U diag(s) V' with random orthogonal U, V, s log-spaced with random interior values, "
        "cond(A) log-uniform in [1, 1e3], largest singular value log-uniform in [0.1, 100], |xtrue| scale log-uniform in [0.1, 100]; b = A xtrue + noise (noise size "
        "0, 1e-3, 0.1, 1 times |A xtrue|), so f* ranges from 0 to O(|b|^2); x0 = x_ls + dist*direction, dist log-uniform "
        "in [1e-2, 1e3]; bounds kind in {none, around (box strictly contains unconstrained minimiser and x0), excluding "
        "(box excludes the unconstrained minimiser in >= 1 coordinate: active bounds), x0_outside (as excluding/around "
        "but x0 outside the box)}; box widths >= 2.5*default rhobeg (else the solver rejects the input), width ratio "
        "<= 10; scaling_within_bounds on/off (only with bounds); npt uniform in [n+1, 2n+1], and for n <= 3 in 12% of the cases 1-3 more than (n+1)(n+2)/2 (random initial directions); everything else default. "
        "Reference f*: numpy lstsq (no bounds) or scipy lsq_linear(bvls), verified by the KKT conditions (fallback: "
        "enumeration of all 3^n active sets). A case is NON-TRIVIAL iff the (projected) starting point is not already "
        "within the tolerance of f* and, for kinds excluding/x0_outside, at least one bound is active at the reference "
        "solution with a non-zero multiplier.")


# ----------------------------------------------------------------------------------------------- helpers
def _hx(a):
    a = np.asarray(a, dtype=float)
    if a.ndim == 0:
        return float(a).hex()
    if a.ndim == 1:
        return [float(v).hex() for v in a]
    return [[float(v).hex() for v in row] for row in a]


def _unhx(h):
    if isinstance(h, str):
        return float.fromhex(h)
    if len(h) > 0 and isinstance(h[0], list):
        return np.array([[float.fromhex(v) for v in row] for row in h], dtype=float)
    return np.array([float.fromhex(v) for v in h], dtype=float)


def _bump(d, k, n=1):
    k = str(k)
    d[k] = d.get(k, 0) + n


def _orth(rng, k):
    q, r = np.linalg.qr(rng.standard_normal((k, k)))
    return q * np.sign(np.diag(r))


def make_A(rng, m, n, cond, smax):
    s = np.ones(n) * smax
    if n > 1:
        e = np.sort(rng.uniform(0.0, 1.0, size=n))
        e[0], e[-1] = 0.0, 1.0
        s = smax * cond ** (-e)
    U = _orth(rng, m)[:, :n]
    V = _orth(rng, n)
    return (U * s) @ V.T


# ----------------------------------------------------------------------------------------------- reference optimum
def _kkt_ok(A, b, x, xl, xu, tol):
    g = 2.0 * A.T @ (A @ x - b)
    gs = max(1.0, np.max(np.abs(2.0 * A.T @ b)), np.max(np.abs(g)))
    if np.any(x < xl) or np.any(x > xu):
        return False
    for i in range(len(x)):
        at_l, at_u = x[i] == xl[i], x[i] == xu[i]
        if at_l and at_u:
            continue
        if at_l:
            if g[i] < -tol * gs:
                return False
        elif at_u:
            if g[i] > tol * gs:
                return False
        elif abs(g[i]) > tol * gs:
            return False
    return True


def reference(A, b, xl, xu):
    """(xstar, fstar, how) with KKT conditions verified; raises if no verified reference can be produced"""
    m, n = A.shape
    if xl is None:
        x = np.linalg.lstsq(A, b, rcond=None)[0]
        lo, hi = -np.inf * np.ones(n), np.inf * np.ones(n)
        if not _kkt_ok(A, b, x, lo, hi, 1e-9):
            raise RuntimeError('C05 oracle: lstsq reference fails KKT')
        return x, float(np.sum((A @ x - b) ** 2)), 'lstsq'
    from scipy.optimize import lsq_linear
    try:
        res = lsq_linear(A, b, bounds=(xl, xu), method='bvls', tol=1e-15, max_iter=1000)
        x = np.minimum(np.maximum(res.x, xl), xu)
        # snap to bounds (bvls returns exact bound values for active variables)
        if _kkt_ok(A, b, x, xl, xu, 1e-9):
            return x, float(np.sum((A @ x - b) ** 2)), 'bvls'
    except Exception:
        pass
    best = None
    for act in itertools.product((0, 1, 2), repeat=n):     # 0 free, 1 lower, 2 upper
        act = np.array(act)
        x = np.where(act == 1, xl, xu).astype(float)
        free = act == 0
        if np.any(free):
            rhs = b - A[:, ~free] @ x[~free]
            x[free] = np.linalg.lstsq(A[:, free], rhs, rcond=None)[0]
        if np.any(x < xl) or np.any(x > xu):
            continue
        if _kkt_ok(A, b, x, xl, xu, 1e-9):
            f = float(np.sum((A @ x - b) ** 2))
            if best is None or f < best[1]:
                best = (x, f, 'enum')
    if best is None:
        raise RuntimeError('C05 oracle: no KKT-verified reference optimum')
    return best


# ----------------------------------------------------------------------------------------------- case generation
KINDS = ('none', 'around', 'excluding', 'x0_outside')


def gen_case(rng):
    n = int(rng.integers(1, 7))
    extra = [0, 1, 2, n, 2 * n, 3 * n + 5][int(rng.integers(0, 6))]
    m = n + extra
    cond = float(10.0 ** rng.uniform(0.0, 3.0)) if n > 1 else 1.0
    smax = float(10.0 ** rng.uniform(-1.0, 2.0))
    A = make_A(rng, m, n, cond, smax)
    xtrue = rng.standard_normal(n) * float(10.0 ** rng.uniform(-1.0, 2.0))
    noise = [0.0, 1e-3, 0.1, 1.0][int(rng.integers(0, 4))]
    Ax = A @ xtrue
    b = Ax + noise * np.linalg.norm(Ax) / np.sqrt(m) * rng.standard_normal(m)
    xls = np.linalg.lstsq(A, b, rcond=None)[0]
    d = rng.standard_normal(n)
    d /= np.linalg.norm(d)
    dist = float(10.0 ** rng.uniform(-2.0, 3.0))
    x0 = xls + dist * d
    kind = KINDS[int(rng.integers(0, 4))]
    npt = int(rng.integers(n + 1, 2 * n + 2))
    scaling = bool(rng.integers(0, 2)) if kind != 'none' else False
    xl = xu = None
    if kind != 'none':
        rhobeg = 0.1 * max(np.max(np.abs(x0)), 1.0)        # the solver's default (no scaling); a box must be >= 2*rhobeg wide
        wmin = 2.5 * rhobeg
        w = wmin * 10.0 ** rng.uniform(0.0, 1.0, size=n)    # widths within a factor 10 of each other
        if kind == 'around':
            # box contains both the unconstrained minimiser and x0, strictly
            lo, hi = np.minimum(xls, x0), np.maximum(xls, x0)
            pad = w * rng.uniform(0.05, 1.0, size=n)
            pad2 = w * rng.uniform(0.05, 1.0, size=n)
            xl, xu = lo - pad, hi + pad2
            short = np.maximum(wmin - (xu - xl), 0.0)
            xl, xu = xl - 0.5 * short, xu + 0.5 * short
        else:
            # each coordinate: with prob 1/2 the box excludes xls[i] (on a random side), else contains it
            xl, xu = np.zeros(n), np.zeros(n)
            excl = rng.integers(0, 2, size=n).astype(bool)
            if not np.any(excl):
                excl[int(rng.integers(0, n))] = True
            for i in range(n):
                gap = float(10.0 ** rng.uniform(-2.0, 0.5)) * max(1.0, abs(xls[i]) * 0.1)
                if excl[i]:
                    if rng.integers(0, 2):
                        xl[i] = xls[i] + gap
                        xu[i] = xl[i] + w[i]
                    else:
                        xu[i] = xls[i] - gap
                        xl[i] = xu[i] - w[i]
                else:
                    t = rng.uniform(0.1, 0.9)
                    xl[i] = xls[i] - t * w[i]
                    xu[i] = xl[i] + w[i]
            if kind == 'excluding':
                x0 = xl + rng.uniform(0.0, 1.0, size=n) * (xu - xl)          # anywhere inside (possibly near a face)
                if rng.integers(0, 4) == 0:                                   # sometimes exactly on faces
                    j = int(rng.integers(0, n))
                    x0[j] = xl[j] if rng.integers(0, 2) else xu[j]
            else:
                x0 = xl + rng.uniform(0.0, 1.0, size=n) * (xu - xl)
                k = int(rng.integers(1, n + 1))
                for j in rng.choice(n, size=k, replace=False):
                    off = float(10.0 ** rng.uniform(-7.0, 1.0)) * w[j]
                    x0[j] = xu[j] + off if rng.integers(0, 2) else xl[j] - off
            # default rhobeg depends on the raw x0: make sure the box is still wide enough
            rhobeg = 0.1 * max(np.max(np.abs(x0)), 1.0)
            short = np.maximum(2.5 * rhobeg - (xu - xl), 0.0)
            if np.any(short > 0):
                # widen away from xls so exclusion is preserved
                for i in range(n):
                    if short[i] > 0:
                        if xl[i] > xls[i]:
                            xu[i] += short[i]
                        elif xu[i] < xls[i]:
                            xl[i] -= short[i]
                        else:
                            xl[i] -= 0.5 * short[i]
                            xu[i] += 0.5 * short[i]
    if scaling and xl is not None and rng.uniform() < 0.25:
        # with internal scaling every finite box is legal, however narrow in the user's units (the scaled gap is 1 >= 2*rhobeg)
        j = int(rng.integers(0, n))
        wj = float(10.0 ** rng.uniform(-2.0, -0.8))
        cj = float(min(max(x0[j], xl[j]), xu[j]))
        old_l, old_u = float(xl[j]), float(xu[j])
        xl[j], xu[j] = cj - 0.5 * wj, cj + 0.5 * wj
        # the solver works on A*diag(xu - xl): keep that matrix inside the property's "moderate conditioning" too
        if np.linalg.cond(A * (xu - xl)[None, :]) > 1e3:
            xl[j], xu[j] = old_l, old_u
    if n <= 3 and rng.random() < 0.12:
        # more points than a quadratic needs: the initial set is then built from random directions by default
        npt = (n + 1) * (n + 2) // 2 + int(rng.integers(1, 4))
    return dict(A=A, b=b, x0=x0, xl=xl, xu=xu, npt=npt, scaling=scaling, kind=kind, cond=cond, smax=smax, noise=noise, dist=dist,
                np_seed=int(rng.integers(0, 2 ** 31 - 1)))


def case_data(c):
    return dict(A=_hx(c['A']), b=_hx(c['b']), x0=_hx(c['x0']),
                xl=None if c['xl'] is None else _hx(c['xl']), xu=None if c['xu'] is None else _hx(c['xu']),
                npt=int(c['npt']), scaling=bool(c['scaling']), kind=c['kind'], np_seed=int(c['np_seed']))


def case_from_data(d):
    return dict(A=_unhx(d['A']), b=_unhx(d['b']), x0=_unhx(d['x0']),
                xl=None if d['xl'] is None else _unhx(d['xl']), xu=None if d['xu'] is None else _unhx(d['xu']),
                npt=int(d['npt']), scaling=bool(d['scaling']), kind=d.get('kind', '?'), np_seed=int(d['np_seed']))


# ----------------------------------------------------------------------------------------------- judge one case
def run_case(c):
    """returns (violations, info)"""
    import dfols
    A, b, x0, xl, xu = c['A'], c['b'], c['x0'], c['xl'], c['xu']
    m, n = A.shape
    xs, fs, how = reference(A, b, xl, xu)
    objfun = lambda x: A @ x - b
    np.random.seed(c['np_seed'])
    tol = RTOL * (1.0 + fs)
    viol = []
    data = case_data(c)
    try:
        with warnings.catch_warnings():
            warnings.simplefilter('ignore')
            soln = dfols.solve(objfun, x0.copy(), bounds=None if xl is None else (xl.copy(), xu.copy()), npt=c['npt'],
                               scaling_within_bounds=c['scaling'], do_logging=False)
    except Exception as ex:
        sig = 'C05:solve_raised:%s' % type(ex).__name__
        viol.append(dict(signature=sig, what='solve raised %s: %s (n=%d m=%d npt=%d kind=%s scaling=%s)'
                         % (type(ex).__name__, str(ex)[:200], n, m, c['npt'], c['kind'], c['scaling']),
                         data=dict(data, signature=sig)))
        return viol, dict(flag='raised', n=n, m=m, nf=0, fstar=fs, ref=how, nactive=0, nontrivial=False, gap=float('nan'))
    info = dict(flag=int(soln.flag), n=n, m=m, nf=int(soln.nf), fstar=fs, ref=how)
    if soln.flag == soln.EXIT_INPUT_ERROR or soln.x is None:
        viol.append(dict(signature='C05:not_success:%d' % soln.flag,
                         what='input inside the property domain rejected: %s' % soln.msg, data=data))
        info.update(nactive=0, nontrivial=False, gap=float('nan'))
        return viol, info
    x = np.asarray(soln.x, dtype=float)
    fx = float(np.sum((A @ x - b) ** 2))
    gap = fx - fs
    info['gap'] = gap
    if xl is not None:
        if np.any(x < xl) or np.any(x > xu):
            viol.append(dict(signature='C05:infeasible',
                             what='returned x violates the bounds by %.3g' % float(max(np.max(xl - x), np.max(x - xu))),
                             data=data))
        g = 2.0 * A.T @ (A @ xs - b)
        gs = max(1.0, np.max(np.abs(2.0 * A.T @ b)))
        nact = int(np.sum(((xs == xl) | (xs == xu)) & (np.abs(g) > 1e-7 * gs)))
        x0p = np.minimum(np.maximum(x0, xl), xu)
    else:
        nact = 0
        x0p = x0
    info['nactive'] = nact
    f0 = float(np.sum((A @ x0p - b) ** 2))
    info['nontrivial'] = bool(f0 - fs > tol and (c['kind'] in ('none', 'around') or nact >= 1))
    if not np.isfinite(fx) or gap > tol:
        viol.append(dict(signature='C05:suboptimal',
                         what='f(x)=%.12g exceeds f*=%.12g by %.3g > 1e-6*(1+f*)=%.3g (flag %d, nf %d, n=%d m=%d npt=%d '
                              'kind=%s scaling=%s): %s' % (fx, fs, gap, tol, soln.flag, soln.nf, n, m, c['npt'], c['kind'],
                                                           c['scaling'], soln.msg), data=data))
    elif not abs(float(soln.obj) - fs) <= tol:      # the reported objective must satisfy the same bound (and cannot beat f*)
        viol.append(dict(signature='C05:reported_obj_off',
                         what='soln.obj=%.12g but f(soln.x)=%.12g, f*=%.12g' % (float(soln.obj), fx, fs), data=data))
    if soln.flag != soln.EXIT_SUCCESS:
        viol.append(dict(signature='C05:not_success:%d' % soln.flag,
                         what='flag %d (%s) after %d evaluations; f(x)-f*=%.3g, tol %.3g; n=%d m=%d npt=%d kind=%s scaling=%s'
                              % (soln.flag, soln.msg, soln.nf, gap, tol, n, m, c['npt'], c['kind'], c['scaling']), data=data))
    for v in viol:
        v['data'] = dict(v['data'], signature=v['signature'])
    return viol, info


# ----------------------------------------------------------------------------------------------- interface
def tasks(seed, tier):
    return [dict(seed=int(seed), idx=i, ncases=CASES_PER_TASK) for i in range(NTASKS.get(tier, NTASKS['quick']))]


def run_task(task):
    stats, violations, sample = {}, [], None
    ev = nt = 0
    for j in range(task['ncases']):
        rng = np.random.default_rng((task['seed'], task['idx'], j))
        c = gen_case(rng)
        viol, info = run_case(c)
        ev += 1
        nt += 1 if info.get('nontrivial') else 0
        violations.extend(viol)
        m, n = c['A'].shape
        _bump(stats, 'flag=%s' % info['flag'])
        _bump(stats, 'n=%d' % n)
        _bump(stats, 'shape=%s' % ('square' if m == n else 'over'))
        _bump(stats, 'kind=%s' % c['kind'])
        _bump(stats, 'scaling=%s' % c['scaling'])
        _bump(stats, 'npt=%s' % ('n+1' if c['npt'] == n + 1 else ('2n+1' if c['npt'] == 2 * n + 1 else ('random-directions' if c['npt'] > (n + 1) * (n + 2) // 2 else 'between'))))
        _bump(stats, 'cond=%s' % ('1' if c['cond'] == 1.0 else ('<=1e1' if c['cond'] <= 10 else ('<=1e2' if c['cond'] <= 100 else '<=1e3'))))
        _bump(stats, 'smax=%s' % ('<1' if c['smax'] < 1 else '>=1'))
        _bump(stats, 'x0dist=%s' % ('<1' if c['dist'] < 1 else ('<30' if c['dist'] < 30 else '>=30')))
        _bump(stats, 'nactive=%d' % info['nactive'])
        _bump(stats, 'fstar=%s' % ('0' if info['fstar'] < 1e-12 else ('<1e-3' if info['fstar'] < 1e-3 else '>=1e-3')))
        _bump(stats, 'ref=%s' % info['ref'])
        if np.isfinite(info.get('gap', float('nan'))):
            rel = info['gap'] / (1.0 + info['fstar'])
            _bump(stats, 'relgap=%s' % ('<=1e-12' if rel <= 1e-12 else ('<=1e-9' if rel <= 1e-9 else ('<=1e-6' if rel <= 1e-6 else '>1e-6'))))
        if sample is None and info.get('nontrivial') and info['nactive'] >= 1:
            sample = dict(case=case_data(c), flag=info['flag'], nf=info['nf'], fstar=info['fstar'], gap=info['gap'],
                          nactive=info['nactive'])
    return dict(evaluations=ev, nontrivial=nt, violations=violations, stats=stats, sample=sample)


def replay(data):
    c = case_from_data(data)
    viol, info = run_case(c)
    want = data.get('signature')
    for v in viol:
        if want is None or v['signature'] == want:
            return v
    return None


if __name__ == '__main__':
    import time, multiprocessing, json
    seed = int(sys.argv[1]) if len(sys.argv) > 1 else 0
    tier = sys.argv[2] if len(sys.argv) > 2 else 'quick'
    t0 = time.time()
    with multiprocessing.Pool(16) as pool:
        res = pool.map(run_task, tasks(seed, tier), chunksize=1)
    tot, sigs = {}, {}
    for r in res:
        for k, v in r['stats'].items():
            _bump(tot, k, v)
        for v in r['violations']:
            _bump(sigs, v['signature'])
    print('seed', seed, 'wall %.1fs' % (time.time() - t0), 'evaluations', sum(r['evaluations'] for r in res),
          'nontrivial', sum(r['nontrivial'] for r in res))
    print(json.dumps(dict(sorted(tot.items())), indent=0))
    print('violations', sigs)
