"""Oracle for C16: interpolation identities of dfols.model.Model, driven directly through its public methods.

A case is a history: Model(num_pts, x0, r0, xl, xu, [], 1, precondition=...) followed by operations
  grow (change_point at index npt_so_far), replace (change_point at an existing index), append (add_new_point),
  shift (shift_base by xopt or by a vector), fit (interpolate_mini_models_svd, optionally make_full_rank while growing),
  lagrange (lagrange_gradient for all k and for one k), lagrange_nofact (lagrange_gradient(k, factorise_first=False)).
All tolerances are 1e-10 * cond(W) * scale with W = Model.interpolation_matrix() of the current point set; checks with cond > 1e8
(or non-finite) are skipped and not reported.

Signatures:
  C16:fit_not_interpolating:square                      npt == n+1, |m(y_k) - r_k| too large
  C16:fit_not_interpolating:growing                     npt <  n+1 (make_full_rank=False)
  C16:fit_not_interpolating:growing:full_rank_completion   npt < n+1, make_full_rank=True and the singular-value floor leaves the fitted part alone
  C16:fit_not_least_squares                             npt >  n+1, residual of the fit not orthogonal to the design columns
  C16:fit_failed                                        interpolate_mini_models_svd reported failure on finite, well-conditioned data
  C16:lagrange_not_delta:square | :growing              L_k(y_j) != delta_kj
  C16:lagrange_not_partition_of_unity                   regression: sum_k L_k(y) != 1
  C16:lagrange_single_vs_all                            lagrange_gradient(k) differs from column k of lagrange_gradient(None)
  C16:lagrange_unfactorised_path                        lagrange_gradient(k, factorise_first=False) after a mutation raises / differs
  C16:shift_changes_model_value | _gradient | _hessian  shift_base changed the model at fixed absolute points / build_full_model
  C16:exception:<op>:<Type>                             any other exception raised by a Model method on finite data
"""
import os, sys, math, json, time, warnings

for _v in ('OMP_NUM_THREADS', 'OPENBLAS_NUM_THREADS', 'MKL_NUM_THREADS'):
    os.environ.setdefault(_v, '1')       # effective only if numpy is not loaded yet; bin/check exports the same
if 'dfols' not in sys.modules:
    _repo = os.environ.get('DFOLS_REPO', '/repo')
    if _repo not in sys.path:
        sys.path.insert(0, _repo)
import numpy as np
from dfols.model import Model

RULE = ("Each case is a history on one Model: n in 1..6, m in 1..6, capacity num_pts in n+1..2n+1, initial fill to q in 2..num_pts points "
        "(growing q<n+1, square q=n+1, regression q>n+1), x0 = 0 or |x0| = 10^U(0,6), point spread delta = 10^U(-4,0) with radii mixed over "
        "1-2 decades, random residual vectors of magnitude 10^U(-3,3), precondition on/off, bounds infinite (75%) or a finite box around the "
        "points (new points are clipped into it); then 4..14 operations drawn from grow / replace / append / shift (to xopt, by a vector of "
        "size delta*10^U(-1,1), or by delta*10^U(1,3)) / fit (make_full_rank on half of the growing fits) / lagrange / "
        "lagrange(factorise_first=False) (5%).  After every fit: interpolation (npt<=n+1) or normal equations (npt>n+1) with "
        "tol = 1e-10*cond(W)*(max|r| + |J|_F*max|y_k|) (y_k relative to xbase); after every lagrange: L_k(y_j)=delta_kj or sum_k L_k = 1 with "
        "scale 1 + max|grad L_k|*max|y_j-xopt|; around every shift (once a model was fitted): model values at the interpolation points and "
        "two other fixed absolute points, gradient and Hessian of build_full_model, scale max|value| + |J|_F*(max|s|+|shift|).  Checks whose "
        "point set has cond(W) > 1e8 are skipped.  For make_full_rank fits the check is made only when the singular-value floor does not touch "
        "the first r singular values of the fitted Jacobian (otherwise the completion changes the fit by design).  A history is non-trivial iff "
        "at least one fit or lagrange check was judged after a replace/shift/grow/append operation that itself followed an earlier fit.")

COND_MAX = 1e8
FACTOR = 1e-10


def _hx(a):
    return [float(v).hex() for v in np.asarray(a, dtype=float).ravel()]


def _unhx(l):
    return np.array([float.fromhex(s) for s in l], dtype=float)


def _unit(rng, n):
    v = rng.standard_normal(n)
    nv = np.linalg.norm(v)
    if nv == 0:
        v = np.ones(n); nv = math.sqrt(n)
    return v / nv


# ------------------------------------------------------------------------------------------------------ generator
def gen_case(rng):
    n = int(rng.integers(1, 7))
    m = int(rng.integers(1, 7))
    num_pts = int(rng.integers(n + 1, 2 * n + 2))
    regime = str(rng.choice(['growing', 'square', 'regression']))
    if regime == 'growing' and n >= 2:
        q = int(rng.integers(2, n + 1)); num_pts = n + 1 if rng.random() < 0.7 else num_pts
    elif regime == 'regression' and num_pts > n + 1:
        q = int(rng.integers(n + 2, num_pts + 1))
    else:
        q = n + 1
    q = min(q, num_pts)
    x0 = np.zeros(n) if rng.random() < 0.2 else _unit(rng, n) * 10.0 ** rng.uniform(0, 6)
    delta = 10.0 ** rng.uniform(-4, 0)
    fscale = 10.0 ** rng.uniform(-3, 3)
    mixed = 2.0 if rng.random() < 0.3 else 1.0
    precond = bool(rng.random() < 0.7)
    bounds = None
    if rng.random() < 0.25:
        B = delta * 10.0 ** rng.uniform(0.5, 2, size=n)
        off = rng.uniform(-0.5, 0.5, size=n) * B
        bounds = [_hx(x0 - B + off), _hx(x0 + B + off)]
    # near-orthogonal first directions in half of the cases (well conditioned), random otherwise
    Q = np.linalg.qr(rng.standard_normal((n, n)))[0]
    ortho = rng.random() < 0.5
    cnt = [0]

    def new_step(scale=1.0):
        rho = 10.0 ** rng.uniform(-mixed, 0)
        if ortho and cnt[0] < n:
            u = Q[:, cnt[0]] * float(rng.choice([-1.0, 1.0])) + 0.1 * rng.standard_normal(n)
            u = u / np.linalg.norm(u)
        else:
            u = _unit(rng, n)
        cnt[0] += 1
        return delta * scale * rho * u

    def new_r():
        return fscale * rng.standard_normal(m) * 10.0 ** rng.uniform(-1, 0)

    ops = []
    npt_so_far = 1
    num_pts0 = num_pts
    for _ in range(q - 1):
        ops.append(dict(op='grow', step=_hx(new_step()), r=_hx(new_r())))
        npt_so_far += 1
    ops.append(dict(op='fit', full_rank=bool(npt_so_far < n + 1 and rng.random() < 0.5)))
    ops.append(dict(op='lagrange', k=int(rng.integers(0, 64))))
    nops = int(rng.integers(4, 15))
    for _ in range(nops):
        t = rng.random()
        if t < 0.22:
            ops.append(dict(op='replace', k=int(rng.integers(0, 64)), step=_hx(new_step(10.0 ** rng.uniform(-0.5, 0.5))), r=_hx(new_r())))
        elif t < 0.32:
            if npt_so_far < num_pts:
                ops.append(dict(op='grow', step=_hx(new_step()), r=_hx(new_r())))
                npt_so_far += 1
            elif num_pts < 2 * n + 1 and rng.random() < 0.5:
                ops.append(dict(op='append', step=_hx(new_step()), r=_hx(new_r())))
                num_pts += 1
                npt_so_far += 1
            else:
                ops.append(dict(op='replace', k=int(rng.integers(0, 64)), step=_hx(new_step()), r=_hx(new_r())))
        elif t < 0.52:
            u = rng.random()
            if u < 0.5:
                ops.append(dict(op='shift', kind='xopt'))
            elif u < 0.8:
                ops.append(dict(op='shift', kind='vec', vec=_hx(_unit(rng, n) * delta * 10.0 ** rng.uniform(-1, 1))))
            else:
                ops.append(dict(op='shift', kind='vec', vec=_hx(_unit(rng, n) * delta * 10.0 ** rng.uniform(1, 3))))
        elif t < 0.77:
            ops.append(dict(op='fit', full_rank=bool(rng.random() < 0.5)))
        elif t < 0.95:
            ops.append(dict(op='lagrange', k=int(rng.integers(0, 64))))
        else:
            ops.append(dict(op='lagrange_nofact', k=int(rng.integers(0, 64))))
    ops.append(dict(op='fit', full_rank=bool(rng.random() < 0.5)))
    ops.append(dict(op='lagrange', k=int(rng.integers(0, 64))))
    return dict(n=n, m=m, num_pts=int(num_pts0), x0=_hx(x0), r0=_hx(new_r()),
                bounds=bounds, precondition=precond, ops=ops, regime0=regime, delta=float(delta), fscale=float(fscale))


# -------------------------------------------------------------------------------------------------------- checking
def _cond(model):
    try:
        W, _l, _r = model.interpolation_matrix()
    except ZeroDivisionError:          # all points coincide (approx_delta == 0): degenerate, skipped like cond > 1e8
        return float('inf'), None
    if not np.all(np.isfinite(W)):
        return float('inf'), W
    try:
        c = float(np.linalg.cond(W))
    except np.linalg.LinAlgError:
        c = float('inf')
    if not np.isfinite(c):
        c = float('inf')
    return c, W


def _regime(model):
    npt, n = model.npt(), model.n()
    return 'growing' if npt < n + 1 else ('square' if npt == n + 1 else 'regression')


def _pred(model, s):
    return model.model_value(s, d_based_at_xopt=False, with_const_term=True)


def check_case(case):
    """execute the history on the real Model; returns (violations, info)"""
    n, m = int(case['n']), int(case['m'])
    x0 = _unhx(case['x0'])
    r0 = _unhx(case['r0'])
    if case['bounds'] is None:
        xl, xu = -1e20 * np.ones(n), 1e20 * np.ones(n)
    else:
        xl, xu = _unhx(case['bounds'][0]), _unhx(case['bounds'][1])
    viol = []
    seen = set()
    info = dict(checks={}, skipped_degenerate=0, judged_after_mutation=0, ops={}, cond_max=0.0, worst_ratio=0.0, floor_active=0)

    def V(sig, what, opi, **extra):
        if sig in seen:
            return
        seen.add(sig)
        d = dict(case)
        d['signature'] = sig
        d['op_index'] = opi
        d.update(extra)
        viol.append(dict(signature=sig, what=what, data=d))

    def cnt(k):
        info['checks'][k] = info['checks'].get(k, 0) + 1

    def ratio(err, tol):
        r = err / tol if tol > 0 else (0.0 if err == 0 else float('inf'))
        info['worst_ratio'] = max(info['worst_ratio'], r)
        return r

    model = Model(int(case['num_pts']), x0.copy(), r0.copy(), xl, xu, [], 1, precondition=bool(case['precondition']), do_logging=False)
    fitted = False
    mutated = False      # a mutation (grow/replace/append/shift) happened after the first fit
    seen_fit = False
    evalnum = 1
    for opi, op in enumerate(case['ops']):
        kind = op['op']
        info['ops'][kind] = info['ops'].get(kind, 0) + 1
        try:
            if kind in ('grow', 'replace', 'append'):
                step = _unhx(op['step'])
                x = np.minimum(np.maximum(model.xopt() + step, model.sl), model.su)
                r = _unhx(op['r'])
                evalnum += 1
                if kind == 'grow':
                    if model.npt_so_far >= model.num_pts:
                        continue
                    model.change_point(model.npt_so_far, x, r, evalnum)
                elif kind == 'replace':
                    model.change_point(int(op['k']) % model.npt(), x, r, evalnum)
                else:
                    if model.npt_so_far < model.num_pts:
                        continue
                    model.add_new_point(x, r, evalnum)
                mutated = mutated or seen_fit

            elif kind == 'shift':
                cond, _W = _cond(model)
                t = model.xopt().copy() if op['kind'] == 'xopt' else _unhx(op['vec'])
                npt = model.npt()
                S = [model.xpt(k).copy() for k in range(npt)]
                xo = model.xopt().copy()
                S.append(xo + 0.37 * t + 0.5 * (S[0] - xo))
                S.append(xo - 1.3 * (S[-2] - xo) if npt > 1 else xo + t)
                before = [np.array(_pred(model, s), dtype=float, copy=True) for s in S]
                g0, H0 = model.build_full_model()
                g0, H0 = g0.copy(), H0.copy()
                J = model.model_jac.copy()
                model.shift_base(t.copy())
                mutated = mutated or seen_fit
                if not fitted:
                    continue
                if not (cond <= COND_MAX):
                    info['skipped_degenerate'] += 1
                    continue
                after = [np.array(_pred(model, s - t), dtype=float, copy=True) for s in S]
                g1, H1 = model.build_full_model()
                nJ = float(np.linalg.norm(J))
                smax = max(float(np.linalg.norm(s)) for s in S)
                vmax = max(float(np.max(np.abs(b))) for b in before)
                scale = vmax + nJ * (smax + float(np.linalg.norm(t)))
                tol = FACTOR * cond * scale
                cnt('shift')
                info['cond_max'] = max(info['cond_max'], cond)
                err = max(float(np.max(np.abs(a - b))) for a, b in zip(after, before))
                if ratio(err, tol) > 1 or not np.isfinite(err):
                    V('C16:shift_changes_model_value', 'op %d: shift_base(%s) changed model values at fixed absolute points by %.3g (tol %.3g, cond %.3g)'
                      % (opi, op['kind'], err, tol, cond), opi, error=float(err).hex(), tol=float(tol).hex())
                errg = float(np.max(np.abs(g1 - g0)))
                tolg = FACTOR * cond * 2.0 * nJ * scale
                if ratio(errg, tolg) > 1 or not np.isfinite(errg):
                    V('C16:shift_changes_gradient', 'op %d: shift_base(%s) changed the gradient of build_full_model by %.3g (tol %.3g, cond %.3g)'
                      % (opi, op['kind'], errg, tolg, cond), opi, error=float(errg).hex(), tol=float(tolg).hex())
                errH = float(np.max(np.abs(H1 - H0)))
                tolH = FACTOR * cond * 2.0 * nJ * nJ
                if ratio(errH, tolH) > 1 or not np.isfinite(errH):
                    V('C16:shift_changes_hessian', 'op %d: shift_base(%s) changed the Hessian of build_full_model by %.3g (tol %.3g)'
                      % (opi, op['kind'], errH, tolH), opi, error=float(errH).hex(), tol=float(tolH).hex())

            elif kind == 'fit':
                seen_fit = True
                regime = _regime(model)
                full_rank = bool(op['full_rank']) and regime == 'growing'
                cond, W = _cond(model)
                npt = model.npt()
                floor_touches = False
                if full_rank:
                    # what would the plain fit be?  (same public entry point on a deep copy) - decides whether the floor alters the fitted part
                    import copy
                    mc = copy.deepcopy(model)
                    okc = mc.interpolate_mini_models_svd(make_full_rank=False)[0]
                    if okc:
                        sv = np.linalg.svd(mc.model_jac, compute_uv=False)
                        r_ = min(mc.npt_so_far - 1, n, m)
                        floor_touches = not (r_ >= 1 and sv[r_ - 1] > 1e-6 * 1.0000001 and sv[r_ - 1] > sv[0] / 1e8 * 1.0000001)
                ok = model.interpolate_mini_models_svd(make_full_rank=full_rank)[0]
                fitted = fitted or bool(ok)
                if not (cond <= COND_MAX):
                    info['skipped_degenerate'] += 1
                    continue
                if not ok:
                    cnt('fit_failed')
                    V('C16:fit_failed', 'op %d: interpolate_mini_models_svd(make_full_rank=%s) returned failure, cond(W)=%.3g, npt=%d, n=%d'
                      % (opi, full_rank, cond, npt, n), opi)
                    continue
                if full_rank and floor_touches:
                    info['floor_active'] += 1
                    continue
                info['cond_max'] = max(info['cond_max'], cond)
                Y = [model.xpt(k).copy() for k in range(npt)]
                F = model.fval_v[:npt, :].copy()
                Pm = np.array([_pred(model, y) for y in Y])
                nJ = float(np.linalg.norm(model.model_jac))
                scale = float(np.max(np.abs(F))) + nJ * max(float(np.linalg.norm(y)) for y in Y)
                tol = FACTOR * cond * scale
                if mutated:
                    info['judged_after_mutation'] += 1
                if regime in ('growing', 'square'):
                    cnt('fit:' + regime + (':full_rank' if full_rank else ''))
                    err = float(np.max(np.abs(Pm - F)))
                    if ratio(err, tol) > 1 or not np.isfinite(err):
                        sig = 'C16:fit_not_interpolating:' + regime + (':full_rank_completion' if full_rank else '')
                        V(sig, 'op %d: after interpolate_mini_models_svd(make_full_rank=%s) with npt=%d, n=%d the model misses the stored residuals by %.3g '
                               '(tol %.3g = 1e-10*cond %.3g*scale %.3g); |xopt rel. to xbase|=%.3g'
                          % (opi, full_rank, npt, n, err, tol, cond, scale, float(np.linalg.norm(model.xopt()))), opi,
                          error=float(err).hex(), tol=float(tol).hex())
                else:
                    cnt('fit:regression')
                    Rm = Pm - F
                    worst = 0.0
                    for j in range(W.shape[1]):
                        w = W[:, j]
                        worst = max(worst, float(np.max(np.abs(w.dot(Rm)))) / float(np.linalg.norm(w)))
                    tolr = tol * math.sqrt(npt)
                    if ratio(worst, tolr) > 1 or not np.isfinite(worst):
                        V('C16:fit_not_least_squares', 'op %d: regression fit (npt=%d, n=%d): residual not orthogonal to the design columns: %.3g (tol %.3g, cond %.3g)'
                          % (opi, npt, n, worst, tolr, cond), opi, error=float(worst).hex(), tol=float(tolr).hex())

            elif kind in ('lagrange', 'lagrange_nofact'):
                regime = _regime(model)
                cond, W = _cond(model)
                npt = model.npt()
                k1 = int(op['k']) % npt
                if kind == 'lagrange_nofact':
                    was_current = bool(model.factorisation_current)
                    cnt('lagrange_nofact:' + ('factorisation_current' if was_current else 'stale'))
                    try:
                        c1, g1 = model.lagrange_gradient(k1, factorise_first=False)
                    except Exception as ex:
                        if cond <= COND_MAX:
                            V('C16:lagrange_unfactorised_path', 'op %d: lagrange_gradient(k, factorise_first=False) with factorisation_current=%s raised %s: %s'
                              % (opi, was_current, type(ex).__name__, str(ex)[:100]), opi)
                        continue
                    c2, g2 = model.lagrange_gradient(k1)
                    if cond <= COND_MAX:
                        xo = model.xopt()
                        dmax = max(float(np.linalg.norm(model.xpt(j) - xo)) for j in range(npt))
                        tol = FACTOR * cond * (1.0 + float(np.linalg.norm(g2)) * dmax)
                        err = max(abs(float(c1 - c2)), float(np.max(np.abs(g1 - g2))) * dmax)
                        if ratio(err, tol) > 1 or not np.isfinite(err):
                            V('C16:lagrange_unfactorised_path', 'op %d: lagrange_gradient(k, factorise_first=False) differs from the factorised result by %.3g (tol %.3g)'
                              % (opi, err, tol), opi)
                    continue
                cs, gs = model.lagrange_gradient(k=None)
                c1, g1 = model.lagrange_gradient(k1)
                if not (cond <= COND_MAX):
                    info['skipped_degenerate'] += 1
                    continue
                info['cond_max'] = max(info['cond_max'], cond)
                if mutated:
                    info['judged_after_mutation'] += 1
                xo = model.xopt()
                D = np.array([model.xpt(j) - xo for j in range(npt)])           # npt x n
                dmax = float(np.max(np.linalg.norm(D, axis=1)))
                gmax = float(np.max(np.linalg.norm(gs, axis=0)))
                scale = 1.0 + gmax * dmax
                tol = FACTOR * cond * scale
                L = cs[None, :] + D.dot(gs)          # L[j, k] = L_k(y_j)
                cnt('lagrange:' + regime)
                if regime in ('growing', 'square'):
                    err = float(np.max(np.abs(L - np.eye(npt))))
                    if ratio(err, tol) > 1 or not np.isfinite(err):
                        V('C16:lagrange_not_delta:' + regime, 'op %d: max |L_k(y_j) - delta_kj| = %.3g (tol %.3g, cond %.3g, npt=%d, n=%d)'
                          % (opi, err, tol, cond, npt, n), opi, error=float(err).hex(), tol=float(tol).hex())
                else:
                    extra = xo + 0.7 * D[0] - 0.4 * D[-1]
                    rows = np.vstack([L, (cs + (extra - xo).dot(gs))[None, :]])
                    err = float(np.max(np.abs(rows.sum(axis=1) - 1.0)))
                    tolp = tol * math.sqrt(npt)
                    if ratio(err, tolp) > 1 or not np.isfinite(err):
                        V('C16:lagrange_not_partition_of_unity', 'op %d: regression: max |sum_k L_k(y) - 1| = %.3g (tol %.3g, cond %.3g)'
                          % (opi, err, tolp, cond), opi, error=float(err).hex(), tol=float(tolp).hex())
                err1 = max(abs(float(c1 - cs[k1])), float(np.max(np.abs(g1 - gs[:, k1]))) * dmax)
                if ratio(err1, tol) > 1 or not np.isfinite(err1):
                    V('C16:lagrange_single_vs_all', 'op %d: lagrange_gradient(%d) differs from column %d of lagrange_gradient(None) by %.3g (tol %.3g)'
                      % (opi, k1, k1, err1, tol), opi)
            else:
                raise RuntimeError('oracle bug: unknown op %r' % (kind,))
        except RuntimeError:
            raise
        except Exception as ex:
            cond = _cond(model)[0]
            if cond <= COND_MAX:
                V('C16:exception:%s:%s' % (kind, type(ex).__name__), 'op %d (%s) raised %s: %s' % (opi, kind, type(ex).__name__, str(ex)[:120]), opi)
            else:
                info['skipped_degenerate'] += 1
    info['nontrivial'] = info['judged_after_mutation'] >= 1
    return viol, info


def _bump(d, k, n=1):
    d[k] = d.get(k, 0) + n


def tasks(seed, tier):
    nt = 64 if tier == 'quick' else 640
    per = 250 if tier == "quick" else 500
    return [dict(seed=int(seed), idx=i, tier=tier, ncases=per) for i in range(nt)]


def run_task(task):
    rng = np.random.default_rng((int(task['seed']), int(task['idx'])))
    t0 = time.process_time()
    st = {}
    viol = []
    nontriv = 0
    sample = None
    with warnings.catch_warnings():
        warnings.simplefilter('ignore')
        old = np.seterr(all='ignore')
        try:
            for c in range(int(task['ncases'])):
                case = gen_case(rng)
                v, info = check_case(case)
                viol.extend(v)
                _bump(st, 'n=%d' % case['n'])
                _bump(st, 'm=%d' % case['m'])
                _bump(st, 'initial_regime:' + case['regime0'])
                _bump(st, 'bounds:' + ('finite' if case['bounds'] is not None else 'none'))
                _bump(st, 'precondition:' + str(case['precondition']))
                _bump(st, 'spread:1e%d' % int(math.floor(math.log10(case['delta']))))
                x0n = float(np.linalg.norm(_unhx(case['x0'])))
                _bump(st, '|x0|:' + ('0' if x0n == 0 else '1e%d' % int(math.floor(math.log10(x0n)))))
                for k, n_ in info['checks'].items():
                    _bump(st, 'check:' + k, n_)
                for k, n_ in info['ops'].items():
                    _bump(st, 'op:' + k, n_)
                _bump(st, 'checks_skipped_degenerate(cond>1e8)', info['skipped_degenerate'])
                _bump(st, 'full_rank_fits_skipped(floor touches fitted part)', info['floor_active'])
                c_ = info['cond_max']
                _bump(st, 'case_max_cond:' + ('none' if c_ == 0 else '<=1e2' if c_ <= 1e2 else '<=1e4' if c_ <= 1e4 else '<=1e6' if c_ <= 1e6 else '<=1e8'))
                r = info['worst_ratio']
                _bump(st, 'case_worst_err/tol:' + ('<=1e-6' if r <= 1e-6 else '<=1e-3' if r <= 1e-3 else '<=1' if r <= 1 else '>1'))
                if info['nontrivial']:
                    nontriv += 1
                    if sample is None:
                        sample = dict(case=case, info=dict(checks=info['checks'], cond_max=info['cond_max'], worst_ratio=info['worst_ratio']))
        finally:
            np.seterr(**old)
    st['cpu_ms'] = int(1000 * (time.process_time() - t0))
    return dict(evaluations=int(task['ncases']), nontrivial=nontriv, violations=viol, stats=st, sample=sample)


def replay(data):
    sig = data.get('signature')
    with warnings.catch_warnings():
        warnings.simplefilter('ignore')
        old = np.seterr(all='ignore')
        try:
            v, _info = check_case(data)
        finally:
            np.seterr(**old)
    for x in v:
        if sig is None or x['signature'] == sig:
            return x
    return None


if __name__ == '__main__':
    from multiprocessing import Pool
    seed = int(sys.argv[1]) if len(sys.argv) > 1 else 0
    tier = sys.argv[2] if len(sys.argv) > 2 else 'quick'
    t0 = time.time()
    ts = tasks(seed, tier)
    with Pool(16) as pool:
        rs = pool.map(run_task, ts)
    st = {}
    sigs = {}
    for r in rs:
        for k, v in r['stats'].items():
            _bump(st, k, v)
        for v in r['violations']:
            _bump(sigs, v['signature'])
    print(json.dumps(dict(seed=seed, wall=round(time.time() - t0, 1), evaluations=sum(r['evaluations'] for r in rs),
                          nontrivial=sum(r['nontrivial'] for r in rs), violations=sigs, stats=dict(sorted(st.items()))), indent=1))
