"""C01 -- bound constraints are never violated at any evaluation point (and by soln.x).
Runs the real dfols on random bounded problems and compares every x received by the user's objective, and soln.x,
with the bounds the user passed: lower <= x <= upper, elementwise, IEEE comparison, no tolerance."""
import numpy as np
from .. import solverun as S

RULE = ("random problems from harness/solverun.gen_problem(profile='bounds'): n 1..5, m 1..6, six residual families, bounds "
        "always present (two-sided with gap >= 2*rhobeg incl. gap == 2*rhobeg, lower-only, upper-only, per-coordinate mixed "
        "with dfols' +-1e20 convention), x0 inside / on a face / in a corner / 1 ulp inside / 1 ulp outside / far outside, "
        "scaling_within_bounds on/off, npt n+1..2n+1, growing, random initial directions, soft/hard restarts (with npt increase), "
        "noise + sample averaging, L1 regulariser, maxfun 1..120; no `projections` (C09 owns that case). "
        "A run is non-trivial when it made >= npt+2 evaluations AND at least one evaluated point had a coordinate exactly "
        "on one of its bounds (so the clipping mechanism was active in that run).")

TASK_TIMEOUT = 120


def tasks(seed, tier):
    return S.make_tasks('C01', seed, tier, 'bounds')


def _cls(rec, i_call):
    if i_call == 0:
        return 'first_eval'
    if rec['problem']['kwargs'].get('scaling_within_bounds'):
        return 'scaling'
    return None


def _outside(x, lo, up):
    """indices where not (lo <= x <= up); NaN counts as outside"""
    ok = np.logical_and(lo <= x, x <= up)
    return np.where(np.logical_not(ok))[0]


def _size_class(x, lo, up, j):
    if np.isnan(x[j]):
        return 'nan'
    b = lo[j] if x[j] < lo[j] else up[j]
    over = abs(x[j] - b)
    return 'ulp' if over <= 8 * np.spacing(abs(b)) else 'gross'


def judge(rec):
    lo, up = rec['lower'], rec['upper']
    prob = rec['problem']
    viol, marks = [], []
    touched = False
    for i, (x, r) in enumerate(rec['calls']):
        bad = _outside(x, lo, up)
        if len(bad):
            j = int(bad[0])
            c = _cls(rec, i) or _size_class(x, lo, up, j)
            if np.isnan(x[j]) and i in rec.get('nan_sites', {}):
                c = 'nan@%s' % rec['nan_sites'][i]          # which solver routine produced the NaN point
            viol.append(dict(signature='C01:eval_outside_bounds:%s' % c,
                             what='evaluation %d of %d: x[%d] = %r is outside [%r, %r]' % (i + 1, len(rec['calls']), j, float(x[j]), float(lo[j]), float(up[j])),
                             detail=dict(call=i + 1, coord=j, x=S.vh(x), lower=S.vh(lo), upper=S.vh(up))))
            break
        if not touched and (np.any(x == lo) or np.any(x == up)):
            touched = True
    s = rec['soln']
    if s is not None and getattr(s, 'x', None) is not None:
        xs = np.asarray(s.x, dtype=float)
        bad = _outside(xs, lo, up) if xs.shape == lo.shape else np.array([0])
        if len(bad):
            j = int(bad[0])
            c = 'scaling' if prob['kwargs'].get('scaling_within_bounds') else _size_class(xs, lo, up, j)
            viol.append(dict(signature='C01:soln_outside_bounds:%s' % c,
                             what='soln.x[%d] = %r is outside [%r, %r]' % (j, float(xs[j]), float(lo[j]), float(up[j])),
                             detail=dict(coord=j, x=S.vh(xs), lower=S.vh(lo), upper=S.vh(up))))
    if touched:
        marks.append('bound_active_at_some_evaluation')
    if rec['exc'] and not rec['timeup']:
        marks.append('solver_exception')
    npt = int(prob['kwargs']['npt'])
    nontrivial = touched and len(rec['calls']) >= npt + 2
    return dict(violations=viol, nontrivial=nontrivial, marks=marks)


def run_task(task):
    return S.run_generic(task, judge, capture_log=False)


def replay(data):
    return S.replay_generic(data, judge, capture_log=False)
