"""Oracle for C11: the returned Jacobian is the fit through the evaluations it names.

For bound-constrained / unconstrained problems (no regulariser, no projections, no growing phase) we record every call of the
objective.  Whenever soln.jacobian is not None we demand:
  * soln.jacmin_eval_nums is a list of >= n+1 DISTINCT 1-indexed point numbers that were really evaluated,
  * soln.jacobian equals the linear interpolant (npt = n+1) / least-squares regression fit (npt > n+1) of the recorded
    (averaged per point) residual vectors at exactly those points, in the user's coordinates, up to
        tol = cond(W) * ( 1e-8*|J| + 8*u*( |J|*|X| + |R| ) / Delta ),       u = 2^-52
    (W = [1, (s_e - mean)/Delta] the fit matrix of the named points, Delta their radius, |X| the size of the coordinates:
    the second term is the rounding of the evaluation points x = xbase + p and of the residual values, amplified by 1/Delta
    and by the conditioning of the point set; it is what "up to rounding amplified by the conditioning" means when Delta is
    close to rhoend),
  * for linear residuals r = A x - b: soln.jacobian equals A to max(1e-6*|A|, tol).
Self-contained; runs the real dfols from $DFOLS_REPO (default /repo).
"""
import os
os.environ.setdefault('OMP_NUM_THREADS', '1')
os.environ.setdefault('OPENBLAS_NUM_THREADS', '1')
os.environ.setdefault('MKL_NUM_THREADS', '1')
import sys, warnings
import numpy as np

REPO = os.environ.get('DFOLS_REPO', '/repo')
if REPO not in sys.path:
    sys.path.insert(0, REPO)

PID = 'C11'
U = 2.0 ** -52
CROUND = 8.0
CASES_PER_TASK = 20
NTASKS = {'quick': 128, 'thorough': 2560}
INCLUDE_PARALLEL_INIT = True      # small share of cases with init.random_initial_directions + init.run_in_parallel
COND_SKIP = 1e10                  # named point sets worse than this are not judged (counted in stats)

RULE = ("Cases: n uniform in 1..6, m in {n, n+1, 2n, 2n+3} (also m < n: max(1, n-2)); problem in {linear A x - b, "
        "nonlinear smooth: A x - b + a*sin(Wx+phi) + c*(Qx)^2, generalised Rosenbrock}; optional finite bounds (x0 inside, "
        "on a face, or outside), scaling_within_bounds on/off; npt uniform in [n+1, 2n+1]; termination: default budget and "
        "rhoend (normal) or maxfun uniform in [npt+1, 12(n+1)] (early); restart history in {none, soft, soft+move_xk off, soft+"
        "increase_npt, hard, hard+use_old_rk off, hard+increase_npt, objfun_has_noise defaults} with rhoend raised to "
        "1e-6..1e-2 so that several restarts fit in the budget; nsamples constant k in {1,1,1,2,3}; in 25% of the cases "
        "the residuals carry small deterministic pseudo-noise (1e-6..1e-2 relative; a function of the call counter) so "
        "that mislabelled points show up even when the point set is tiny; 3% of cases use random initial directions with "
        "init.run_in_parallel (own signature).  Recording: call number c belongs to point number c//k + 1 (checked: all "
        "calls of a point have the same x).  A case is NON-TRIVIAL iff a Jacobian was returned, its named point set has "
        "cond <= 1e10, at least one named point is not from the initial design of the first run (point number > "
        "initial npt), i.e. the set went through replacements, and the comparison is sharp (tol <= 1e-2*|J|; when the "
        "named points are within ~1e-12 of each other the rounding allowance exceeds |J| and the check is vacuous); restart counts, exit flags, Delta and cond decades are in "
        "stats.")


# ----------------------------------------------------------------------------------------------- helpers
def _hx(a):
    a = np.asarray(a, dtype=float)
    if a.ndim == 0:
        return float(a).hex()
    if a.ndim == 1:
        return [float(v).hex() for v in a]
    return [[float(v).hex() for v in row] for row in a]


def _unhx(h):
    if h is None:
        return None
    if isinstance(h, str):
        return float.fromhex(h)
    if len(h) > 0 and isinstance(h[0], list):
        return np.array([[float.fromhex(v) for v in row] for row in h], dtype=float)
    return np.array([float.fromhex(v) for v in h], dtype=float)


def _bump(d, k, n=1):
    k = str(k)
    d[k] = d.get(k, 0) + n


def _dec(v):
    if not np.isfinite(v) or v <= 0:
        return 'inf' if v > 0 else '0'
    return '1e%d' % int(np.floor(np.log10(v)))


# ----------------------------------------------------------------------------------------------- problems
def make_residual(p):
    """p: dict of arrays (A, b [, W, phi, amp, Q, cq]) and 'ptype'.  Returns f(x) -> residual vector (pure)."""
    ptype = p['ptype']
    if ptype == 'linear':
        A, b = p['A'], p['b']
        return lambda x: A @ x - b
    if ptype == 'nonlinear':
        A, b, W, phi, amp, Q, cq = p['A'], p['b'], p['W'], p['phi'], p['amp'], p['Q'], p['cq']
        return lambda x: A @ x - b + amp * np.sin(W @ x + phi) + cq * (Q @ x) ** 2
    if ptype == 'rosenbrock':
        n = int(p['n'])

        def f(x):
            if n == 1:
                return np.array([10.0 * (x[0] ** 2 - 1.0), 1.0 - x[0]])
            return np.concatenate([10.0 * (x[1:] - x[:-1] ** 2), 1.0 - x[:-1]])
        return f
    raise RuntimeError('C11 oracle: unknown problem type %r' % ptype)


class Recorder(object):
    def __init__(self, f, noise):
        self.f, self.noise = f, noise
        self.xs, self.rs = [], []

    def __call__(self, x):
        x = np.array(x, dtype=float, copy=True)
        r = np.asarray(self.f(x), dtype=float)
        if self.noise > 0.0:
            c = len(self.xs)
            # deterministic pseudo-noise depending on the call counter (so repeated samples differ, replay is exact)
            r = r * (1.0 + self.noise * np.sin(12.9898 * (c + 1) + 78.233 * np.arange(1, len(r) + 1)))
        self.xs.append(x)
        self.rs.append(r.copy())
        return r


# ----------------------------------------------------------------------------------------------- case generation
RESTARTS = ('none', 'none', 'none', 'soft', 'soft_nomove', 'soft_incnpt', 'hard', 'hard_newrk', 'hard_incnpt', 'noisy_defaults')


def gen_case(rng):
    n = int(rng.integers(1, 7))
    ptype = ('linear', 'nonlinear', 'nonlinear', 'rosenbrock')[int(rng.integers(0, 4))]
    p = dict(ptype=ptype, n=n)
    if ptype == 'rosenbrock':
        m = 2 if n == 1 else 2 * (n - 1)
        x0 = np.where(np.arange(n) % 2 == 0, -1.2, 1.0) + 0.3 * rng.standard_normal(n)
    else:
        m = [n, n + 1, 2 * n, 2 * n + 3, max(1, n - 2)][int(rng.integers(0, 5))]
        p['A'] = rng.standard_normal((m, n)) * float(10.0 ** rng.uniform(-0.5, 0.7))
        xt = rng.standard_normal(n) * float(10.0 ** rng.uniform(-0.5, 1.0))
        p['b'] = p['A'] @ xt + 0.1 * rng.standard_normal(m)
        if ptype == 'nonlinear':
            p['W'] = rng.standard_normal((m, n)) * float(10.0 ** rng.uniform(-1.0, 0.3))
            p['phi'] = rng.uniform(0.0, 6.28, size=m)
            p['amp'] = float(10.0 ** rng.uniform(-2.0, 0.3))
            p['Q'] = rng.standard_normal((m, n))
            p['cq'] = float(10.0 ** rng.uniform(-3.0, -0.5))
        x0 = xt + float(10.0 ** rng.uniform(-1.0, 1.0)) * rng.standard_normal(n)
    npt = int(rng.integers(n + 1, 2 * n + 2))
    bounds_kind = ('none', 'inside', 'face', 'outside')[int(rng.integers(0, 4))]
    xl = xu = None
    scaling = False
    rhobeg = None
    if bounds_kind != 'none':
        rb = 0.1 * max(np.max(np.abs(x0)), 1.0)
        w = 2.5 * rb * 10.0 ** rng.uniform(0.0, 1.3, size=n)
        t = rng.uniform(0.05, 0.95, size=n)
        xl, xu = x0 - t * w, x0 + (1.0 - t) * w
        if bounds_kind == 'face':
            for j in rng.choice(n, size=int(rng.integers(1, n + 1)), replace=False):
                if rng.integers(0, 2):
                    xl[j] = x0[j]
                    xu[j] = x0[j] + w[j]
                else:
                    xu[j] = x0[j]
                    xl[j] = x0[j] - w[j]
        elif bounds_kind == 'outside':
            for j in rng.choice(n, size=int(rng.integers(1, n + 1)), replace=False):
                off = float(10.0 ** rng.uniform(-7.0, 0.5)) * w[j]
                x0[j] = xu[j] + off if rng.integers(0, 2) else xl[j] - off
            rb2 = 0.1 * max(np.max(np.abs(x0)), 1.0)
            short = np.maximum(2.5 * rb2 - (xu - xl), 0.0)
            xl, xu = xl - 0.5 * short, xu + 0.5 * short
        scaling = bool(rng.integers(0, 2))
    restart = RESTARTS[int(rng.integers(0, len(RESTARTS)))]
    up = {}
    rhoend = 1e-8
    has_noise = False
    if restart != 'none':
        rhoend = float(10.0 ** rng.uniform(-6.0, -2.0))
        if restart == 'noisy_defaults':
            has_noise = True
        else:
            up['restarts.use_restarts'] = True
            up['restarts.max_unsuccessful_restarts'] = int(rng.integers(1, 6))
            if rng.integers(0, 2):
                up['restarts.rhoend_scale'] = float(rng.choice([1.0, 0.5, 0.1]))
            if restart.startswith('hard'):
                up['restarts.use_soft_restarts'] = False
                if restart == 'hard_newrk':
                    up['restarts.hard.use_old_rk'] = False
                if restart == 'hard_incnpt':
                    up['restarts.increase_npt'] = True
                    up['restarts.max_npt'] = int(min(npt + int(rng.integers(1, 4)), (n + 1) * (n + 2) // 2))
            else:
                if restart == 'soft_nomove':
                    up['restarts.soft.move_xk'] = False
                if restart == 'soft_incnpt':
                    up['restarts.increase_npt'] = True
                    up['restarts.increase_npt_amt'] = int(rng.integers(1, 3))
                    up['restarts.max_npt'] = int(npt + int(rng.integers(1, 5)))
                up['restarts.soft.num_geom_steps'] = int(rng.integers(1, 5))
            if rng.integers(0, 3) == 0:
                up['restarts.auto_detect'] = False
    if npt > n + 1 and rng.integers(0, 5) == 0:
        up['regression.num_extra_steps'] = int(rng.integers(1, 3))
        up['regression.momentum_extra_steps'] = bool(rng.integers(0, 2))
    parallel = False
    if INCLUDE_PARALLEL_INIT and rng.uniform() < 0.03:
        parallel = True
        up['init.random_initial_directions'] = True
        up['init.run_in_parallel'] = True
    elif rng.integers(0, 8) == 0:
        up['init.random_initial_directions'] = True
    term = 'normal' if rng.integers(0, 2) else 'early'
    maxfun = None
    if term == 'early':
        maxfun = int(rng.integers(npt + 1, 12 * (n + 1) + 1))
    k = int([1, 1, 1, 2, 3][int(rng.integers(0, 5))])
    noise = float(10.0 ** rng.uniform(-6.0, -2.0)) if rng.integers(0, 4) == 0 else 0.0
    if has_noise and noise == 0.0:
        noise = float(10.0 ** rng.uniform(-6.0, -2.0))
    return dict(p=p, x0=x0, xl=xl, xu=xu, npt=npt, scaling=scaling, rhoend=rhoend, maxfun=maxfun, k=k, noise=noise,
                has_noise=has_noise, user_params=up, restart=restart, term=term, bounds_kind=bounds_kind, parallel=parallel,
                np_seed=int(rng.integers(0, 2 ** 31 - 1)))


def case_data(c):
    p = {}
    for key, v in c['p'].items():
        p[key] = v if isinstance(v, (str, int)) else _hx(v)
    return dict(p=p, x0=_hx(c['x0']), xl=None if c['xl'] is None else _hx(c['xl']), xu=None if c['xu'] is None else _hx(c['xu']),
                npt=int(c['npt']), scaling=bool(c['scaling']), rhoend=float(c['rhoend']).hex(), maxfun=c['maxfun'], k=int(c['k']),
                noise=float(c['noise']).hex(), has_noise=bool(c['has_noise']), user_params=dict(c['user_params']),
                restart=c['restart'], term=c['term'], bounds_kind=c['bounds_kind'], parallel=bool(c['parallel']),
                np_seed=int(c['np_seed']))


def case_from_data(d):
    p = {}
    for key, v in d['p'].items():
        p[key] = v if key in ('ptype', 'n') else _unhx(v)
    return dict(p=p, x0=_unhx(d['x0']), xl=_unhx(d['xl']), xu=_unhx(d['xu']), npt=int(d['npt']), scaling=bool(d['scaling']),
                rhoend=float.fromhex(d['rhoend']), maxfun=d['maxfun'], k=int(d['k']), noise=float.fromhex(d['noise']),
                has_noise=bool(d['has_noise']), user_params=dict(d['user_params']), restart=d.get('restart', '?'),
                term=d.get('term', '?'), bounds_kind=d.get('bounds_kind', '?'), parallel=bool(d.get('parallel', False)),
                np_seed=int(d['np_seed']))


# ----------------------------------------------------------------------------------------------- judge one case
def run_case(c):
    import dfols
    n = len(c['x0'])
    rec = Recorder(make_residual(c['p']), c['noise'])
    k = c['k']
    kw = {}
    if k > 1:
        kw['nsamples'] = lambda delta, rho, it, nruns: k
    if c['maxfun'] is not None:
        kw['maxfun'] = c['maxfun']
    xl, xu = c['xl'], c['xu']
    data = case_data(c)
    viol = []
    info = dict(n=n, checked=False, nontrivial=False, flag='?', nruns=0, jac=False)

    def add(sig, what):
        if c['parallel']:
            what = '[init.run_in_parallel] %s' % what          # F13 (labels of deferred initial points) is repaired: judged like any other run
        viol.append(dict(signature=sig, what=what, data=dict(data, signature=sig)))

    np.random.seed(c['np_seed'])
    try:
        with warnings.catch_warnings():
            warnings.simplefilter('ignore')
            soln = dfols.solve(rec, c['x0'].copy(), bounds=None if xl is None else (xl.copy(), xu.copy()), npt=c['npt'],
                               rhoend=c['rhoend'], scaling_within_bounds=c['scaling'], objfun_has_noise=c['has_noise'],
                               user_params=dict(c['user_params']) if c['user_params'] else None, do_logging=False, **kw)
    except Exception as ex:
        # not a C11 matter by itself, but it must not be lost: reported under its own signature
        add('C11:solve_raised:%s' % type(ex).__name__, 'solve raised %s: %s | restart=%s user_params=%s'
            % (type(ex).__name__, str(ex)[:200], c['restart'], c['user_params']))
        info['flag'] = 'raised'
        return viol, info
    info.update(flag=int(soln.flag), nruns=int(soln.nruns), nf=int(soln.nf))
    if soln.jacobian is None:
        return viol, info
    info['jac'] = True
    desc = 'n=%d m=%d npt=%d ptype=%s bounds=%s scaling=%s restart=%s term=%s k=%d noise=%.1g flag=%d nruns=%d nf=%d nx=%d' % (
        n, len(rec.rs[0]), c['npt'], c['p']['ptype'], c['bounds_kind'], c['scaling'], c['restart'], c['term'], k, c['noise'],
        soln.flag, soln.nruns, soln.nf, soln.nx)
    J = np.asarray(soln.jacobian, dtype=float)
    m = len(rec.rs[0])
    if J.shape != (m, n):
        add('C11:jacobian_shape', 'soln.jacobian has shape %s, expected %s | %s' % (J.shape, (m, n), desc))
        return viol, info
    E = soln.jacmin_eval_nums
    if E is None:
        add('C11:eval_nums_missing', 'soln.jacobian returned but soln.jacmin_eval_nums is None | ' + desc)
        return viol, info
    E = [int(e) for e in np.asarray(E).ravel()]
    # group the recorded calls into points: call c -> point c//k + 1
    ncalls = len(rec.xs)
    npoints = (ncalls + k - 1) // k
    for pnum in range(npoints):
        grp = rec.xs[pnum * k:(pnum + 1) * k]
        if any(not np.array_equal(g, grp[0]) for g in grp[1:]):
            raise RuntimeError('C11 oracle: recorded calls %d..%d are not samples of one point (k=%d)' % (pnum * k, pnum * k + k - 1, k))
    if ncalls != soln.nf or npoints != soln.nx:
        raise RuntimeError('C11 oracle: recorded %d calls / %d points but soln.nf=%d nx=%d' % (ncalls, npoints, soln.nf, soln.nx))
    if len(E) < n + 1 or len(set(E)) != len(E) or min(E) < 1 or max(E) > npoints:
        add('C11:eval_nums_invalid', 'jacmin_eval_nums=%s is not a list of >= n+1 distinct point numbers in 1..%d | %s'
            % (E, npoints, desc))
        return viol, info
    X = np.array([rec.xs[(e - 1) * k] for e in E])
    R = np.array([np.mean(rec.rs[(e - 1) * k:min(e * k, ncalls)], axis=0) for e in E])
    # work in the solver's coordinates (scaled if scaling): s = (x - xl)/(xu - xl); J_s = J_user * (xu - xl)
    if c['scaling']:
        sc = xu - xl
        S = (X - xl) / sc
    else:
        sc = np.ones(n)
        S = X
    Js = J * sc[None, :]
    ctr = np.mean(S, axis=0)
    D = S - ctr
    Delta = float(np.max(np.linalg.norm(D, axis=1)))
    info['Delta'] = Delta
    if not Delta > 0:
        # all named points coincide (e.g. n = 1 with the iterate pinned to a bound and a collapsed point set): the
        # conditioning of the point set is infinite and the property promises nothing about the fit
        info['skipped_cond'] = True
        return viol, info
    W = np.hstack([np.ones((len(E), 1)), D / Delta])
    cond = float(np.linalg.cond(W))
    info['cond'] = cond
    if not cond <= COND_SKIP:
        info['skipped_cond'] = True
        return viol, info
    coef = np.linalg.lstsq(W, R, rcond=None)[0]
    Jfit = coef[1:, :].T / Delta
    Jmax = max(float(np.max(np.abs(Jfit))), 1e-300)
    Rmax = float(np.max(np.abs(R)))
    posmax = float(np.max(np.abs(X) / sc[None, :]) + np.max(np.abs(S)))
    tol = cond * (1e-8 * Jmax + CROUND * U * (Jmax * posmax + Rmax) / Delta)
    err = float(np.max(np.abs(Js - Jfit)))
    info.update(checked=True, err_over_tol=err / tol, initial_only=bool(max(E) <= c['npt']), reltol=tol / Jmax)
    info['nontrivial'] = bool(max(E) > c['npt'] and tol <= 1e-2 * Jmax)
    if not err <= tol:
        # diagnose: would it match without un-scaling?  (cheap hint for the reader)
        hint = ''
        if c['scaling'] and np.max(np.abs(J - Jfit)) <= tol:
            hint = ' [matches the fit in SCALED coordinates: columns not un-scaled]'
        add('C11:jacobian_not_fit', 'max|J - fit| = %.3g > tol %.3g (|J|=%.3g cond=%.3g Delta=%.3g) eval nums %s%s | %s'
            % (err, tol, Jmax, cond, Delta, E, hint, desc))
    if c['p']['ptype'] == 'linear' and c['noise'] == 0.0:
        As = c['p']['A'] * sc[None, :]
        Amax = float(np.max(np.abs(As)))
        tolA = max(1e-6 * Amax, cond * (1e-8 * Amax + CROUND * U * (Amax * posmax + Rmax) / Delta))
        errA = float(np.max(np.abs(Js - As)))
        info['linear_checked'] = True
        if not errA <= tolA:
            add('C11:linear_not_A', 'linear residuals: max|J - A| = %.3g > tol %.3g (|A|=%.3g cond=%.3g Delta=%.3g) | %s'
                % (errA, tolA, Amax, cond, Delta, desc))
    return viol, info


# ----------------------------------------------------------------------------------------------- interface
def tasks(seed, tier):
    return [dict(seed=int(seed), idx=i, ncases=CASES_PER_TASK) for i in range(NTASKS.get(tier, NTASKS['quick']))]


def run_task(task):
    stats, violations, sample = {}, [], None
    ev = nt = 0
    for j in range(task['ncases']):
        rng = np.random.default_rng((task['seed'], task['idx'], j))
        c = gen_case(rng)
        viol, info = run_case(c)
        ev += 1
        nt += 1 if info.get('nontrivial') else 0
        violations.extend(viol)
        n = info['n']
        _bump(stats, 'flag=%s' % info['flag'])
        _bump(stats, 'jacobian=%s' % ('returned' if info['jac'] else 'None'))
        if not info['jac']:
            continue
        _bump(stats, 'n=%d' % n)
        _bump(stats, 'ptype=%s' % c['p']['ptype'])
        _bump(stats, 'bounds=%s' % c['bounds_kind'])
        _bump(stats, 'scaling=%s' % c['scaling'])
        _bump(stats, 'npt=%s' % ('n+1' if c['npt'] == n + 1 else ('2n+1' if c['npt'] == 2 * n + 1 else 'between')))
        _bump(stats, 'restart=%s' % c['restart'])
        _bump(stats, 'restart=%s,nruns=%s' % (c['restart'].split('_')[0], '1' if info['nruns'] <= 1 else ('2-3' if info['nruns'] <= 3 else '>3')))
        _bump(stats, 'term=%s' % c['term'])
        _bump(stats, 'k=%d' % c['k'])
        _bump(stats, 'noise=%s' % ('0' if c['noise'] == 0 else '>0'))
        _bump(stats, 'parallel_init=%s' % c['parallel'])
        if info.get('skipped_cond'):
            _bump(stats, 'skipped_cond>1e10')
        if info.get('checked'):
            _bump(stats, 'Delta=%s' % _dec(info['Delta']))
            _bump(stats, 'cond=%s' % _dec(info['cond']))
            r = info['err_over_tol']
            _bump(stats, 'err/tol=%s' % ('<=1e-6' if r <= 1e-6 else ('<=1e-3' if r <= 1e-3 else ('<=1' if r <= 1 else '>1'))))
            _bump(stats, 'set=%s' % ('initial_design_only' if info['initial_only'] else 'replaced_points'))
            rt = info['reltol']
            _bump(stats, 'tol/|J|=%s' % ('<=1e-6' if rt <= 1e-6 else ('<=1e-4' if rt <= 1e-4 else ('<=1e-2' if rt <= 1e-2 else '>1e-2 (vacuous)'))))
            if info.get('linear_checked'):
                _bump(stats, 'linear_vs_A_checked')
        if sample is None and info.get('nontrivial') and info['nruns'] > 1:
            sample = dict(case=case_data(c), flag=info['flag'], nruns=info['nruns'], nf=info['nf'], Delta=info['Delta'],
                          cond=info['cond'], err_over_tol=info['err_over_tol'])
    return dict(evaluations=ev, nontrivial=nt, violations=violations, stats=stats, sample=sample)


def replay(data):
    c = case_from_data(data)
    viol, info = run_case(c)
    want = data.get('signature')
    for v in viol:
        if want is None or v['signature'] == want:
            return v
    return None


if __name__ == '__main__':
    import time, multiprocessing, json
    seed = int(sys.argv[1]) if len(sys.argv) > 1 else 0
    tier = sys.argv[2] if len(sys.argv) > 2 else 'quick'
    t0 = time.time()
    with multiprocessing.Pool(16) as pool:
        res = pool.map(run_task, tasks(seed, tier), chunksize=1)
    tot, sigs = {}, {}
    for r in res:
        for kk, v in r['stats'].items():
            _bump(tot, kk, v)
        for v in r['violations']:
            _bump(sigs, v['signature'])
    print('seed', seed, 'wall %.1fs' % (time.time() - t0), 'evaluations', sum(r['evaluations'] for r in res),
          'nontrivial', sum(r['nontrivial'] for r in res))
    print(json.dumps(dict(sorted(tot.items()))))
    print('violations', sigs)
    if '-v' in sys.argv:
        for r in res:
            for v in r['violations']:
                print(v['signature'], '::', v['what'])
