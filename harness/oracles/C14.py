"""C14 oracle: the initial interpolation set is feasible and well poised next to bounds; the random-direction generators
respect bounds and length (see /verif/properties.jsonl).

Two kinds of task (field 'kind'):
  init   dfols.solve(recording objective, x0, bounds=(xl, xu), npt=npt, rhobeg=rhobeg, maxfun=npt) with the default
         (coordinate) initialisation; E = the recorded evaluation points, in order
           C14:init_exception / C14:init_input_rejected   legal input raised / was rejected as an input error
           C14:init_eval_count                 number of recorded evaluations != npt
           C14:first_eval_not_projected_x0     E[0] != clip(x0, xl, xu)   (exact; 1e-12 relative under scaling_within_bounds)
           C14:init_point_outside_bounds       some E[k] outside [xl, xu]  (exact comparison)
           C14:init_point_too_close            ||E[k]-E[0]|| < 0.01*rhobeg
           C14:init_point_too_far              ||E[k]-E[0]|| > 2*rhobeg
           C14:init_square_ill_conditioned     cond of the n x n matrix with rows (E[k]-E[0])/rhobeg, k=1..n, >= 1e4
           C14:init_ill_conditioned            the same for all npt-1 rows (ratio of extreme singular values)
         (under scaling_within_bounds distances and the matrix are taken in the scaled variables (x-xl)/(xu-xl))
  dirs   util.random_directions_within_bounds / util.random_orthog_directions_within_bounds
           C14:random_dirn_count, C14:orthog_dirn_count              wrong number / shape of directions
           C14:random_dirn_outside_bounds, C14:orthog_dirn_outside_bounds   not lower <= d <= upper (exact)
           C14:random_dirn_nonfinite, C14:orthog_dirn_nonfinite
           C14:random_dirn_too_long                                  ||d|| > delta*(1+1e-10)
           C14:orthog_dirn_too_long        KNOWN FINDING: the 'extra directions for active constraints' block (rows
                                           n+ninactive .. 2n-1, with_neg_dirns=True) has length min(2*delta, room)
           C14:orthog_dirn_too_long_elsewhere   any other over-long direction of the orthogonal generator
           C14:random_exception, C14:orthog_exception
"""
import math
import os
for _v in ('OMP_NUM_THREADS', 'OPENBLAS_NUM_THREADS', 'MKL_NUM_THREADS'):   # tiny matrices: BLAS threads only cost time
    os.environ.setdefault(_v, '1')                                       # (effective when numpy is not yet imported)
import numpy as np

PID = 'C14'
RULE = ("init: n in 1..8, npt uniform in [n+1, 2n+1], rhobeg = 10^U(-3,1); per coordinate the box gap is exactly 2*rhobeg "
        "(20%), 2*rhobeg*(1+10^U(-12,-1)) (20%), 2*rhobeg*10^U(0,3) (40%) or one/both sides absent (+-1e20, 20%), always "
        "fl(xu-xl) >= 2*rhobeg; xl = 0 or N(0,1)*10^U(-1,1); each x0 coordinate is placed interior (25%), exactly on the "
        "lower/upper bound (20%), a hair inside (10^U(-15,-3)*rhobeg, 15%), around the 1%-of-radius switching threshold "
        "(0.01*rhobeg*{1, 1-+1e-9, U(0.5,2)}, 10%), outside by a hair (10%) or outside by U(0,3)*rhobeg (20%); 20% of the "
        "fully bounded cases use scaling_within_bounds=True (rhobeg = 10^U(-3,-0.31) in scaled units).  Residuals "
        "r(x) = A x + b + 0.1 sin(x_0), |b| ~ 3, m in 1..n+2.  NON-TRIVIAL init case: some coordinate of x0 is on, outside "
        "or within 0.02*rhobeg of a bound.  "
        "dirs: n in 1..8, delta = 10^U(-3,2), num_pts in 1..3n+2, every lower/upper independently active (0; per-case "
        "probability 0/.15/.3/.6), nearly active (delta*10^U(-15,-3)), comparable (delta*U(0.05,2)), far (delta*10^U(1,3)) "
        "or absent (1e20), never both zero in one coordinate; generator random (40%) or orthogonal (60%, with_neg_dirns "
        "False in 20% of them); numpy's global generator is seeded with a recorded seed before each call.  NON-TRIVIAL dirs "
        "case: at least one bound active.  All draws from numpy.random.default_rng((seed, task_index)).")

EPS = 2.0 ** -52


def _hx(a):
    a = np.asarray(a, dtype=float)
    if a.ndim == 0:
        return float(a).hex()
    if a.ndim == 1:
        return [float(v).hex() for v in a]
    return [[float(v).hex() for v in row] for row in a]


def _unhx(h):
    if isinstance(h, str):
        return float.fromhex(h)
    if len(h) > 0 and isinstance(h[0], list):
        return np.array([[float.fromhex(v) for v in row] for row in h], dtype=float)
    return np.array([float.fromhex(v) for v in h], dtype=float)


def _bump(stats, key, n=1):
    stats[key] = stats.get(key, 0) + n


# ---------------------------------------------------------------------------------------------- init cases
def gen_init(rng):
    n = int(rng.integers(1, 9))
    npt = int(rng.integers(n + 1, 2 * n + 2))
    xl = np.empty(n)
    xu = np.empty(n)
    gapkind = []
    want_scaled = rng.random() < 0.2
    rhobeg = 10.0 ** (rng.uniform(-3, math.log10(0.5)) if want_scaled else rng.uniform(-3, 1))
    base = np.zeros(n) if rng.random() < 0.3 else rng.standard_normal(n) * 10.0 ** rng.uniform(-1, 1)
    for i in range(n):
        k = int(rng.choice(4, p=[0.2, 0.2, 0.4, 0.2]))
        if want_scaled and k == 3:
            k = 2
        unit = 2.0 * rhobeg if not want_scaled else 10.0 ** rng.uniform(-2, 2)   # scaled: any positive gap is legal
        if k == 0:
            gap = unit
        elif k == 1:
            gap = unit * (1.0 + 10.0 ** rng.uniform(-12, -1))
        elif k == 2:
            gap = unit * 10.0 ** rng.uniform(0, 3)
        else:
            gap = None
        if gap is not None:
            xl[i] = base[i]
            xu[i] = base[i] + gap
            if not want_scaled:
                while xu[i] - xl[i] < 2.0 * rhobeg:        # the documented precondition, in floating point
                    xu[i] = np.nextafter(xu[i], np.inf)
            gapkind.append(['exact', 'just_above', 'wide'][k])
        else:
            side = int(rng.integers(0, 3))
            xl[i] = -1e20 if side in (0, 2) else base[i]
            xu[i] = 1e20 if side in (1, 2) else base[i]
            gapkind.append(['no_lower', 'no_upper', 'free'][side])
    scaled = bool(want_scaled)
    x0 = np.empty(n)
    place = []
    for i in range(n):
        lo_fin, up_fin = xl[i] > -1e19, xu[i] < 1e19
        # length scale of the hair in original variables
        ru = rhobeg * (xu[i] - xl[i]) if scaled else rhobeg
        k = int(rng.choice(6, p=[0.25, 0.2, 0.15, 0.1, 0.1, 0.2]))
        if not (lo_fin or up_fin):
            k = 0
        at_low = (rng.random() < 0.5) if (lo_fin and up_fin) else lo_fin
        bnd = xl[i] if at_low else xu[i]
        inward = 1.0 if at_low else -1.0
        if k == 0:
            if lo_fin and up_fin:
                x0[i] = xl[i] + rng.uniform(0.02, 0.98) * (xu[i] - xl[i])
            elif lo_fin:
                x0[i] = xl[i] + ru * 10.0 ** rng.uniform(-1, 2)
            elif up_fin:
                x0[i] = xu[i] - ru * 10.0 ** rng.uniform(-1, 2)
            else:
                x0[i] = base[i] + rng.standard_normal()
            place.append('interior')
        elif k == 1:
            x0[i] = bnd
            place.append('on_bound')
        elif k == 2:
            x0[i] = bnd + inward * ru * 10.0 ** rng.uniform(-15, -3)
            place.append('hair_inside')
        elif k == 3:
            f = [1.0, 1.0 - 1e-9, 1.0 + 1e-9, rng.uniform(0.5, 2.0)][int(rng.integers(0, 4))]
            x0[i] = bnd + inward * 0.01 * ru * f
            place.append('threshold')
        elif k == 4:
            x0[i] = bnd - inward * ru * 10.0 ** rng.uniform(-15, -3)
            place.append('hair_outside')
        else:
            x0[i] = bnd - inward * ru * rng.uniform(0, 3)
            place.append('outside')
    m = int(rng.integers(1, n + 3))
    A = rng.standard_normal((m, n))
    b = 3.0 + rng.standard_normal(m)
    return dict(fn='init', n=n, npt=npt, rhobeg=rhobeg, xl=xl, xu=xu, x0=x0, scaled=scaled, A=A, b=b, place=place,
                gapkind=gapkind)


def _init_data(cs):
    return dict(fn='init', n=cs['n'], npt=cs['npt'], rhobeg=_hx(cs['rhobeg']), xl=_hx(cs['xl']), xu=_hx(cs['xu']),
                x0=_hx(cs['x0']), scaled=cs['scaled'], A=_hx(cs['A']), b=_hx(cs['b']), place=cs.get('place'),
                readable=dict(rhobeg=float(cs['rhobeg']), xl=[float(t) for t in cs['xl']], xu=[float(t) for t in cs['xu']],
                              x0=[float(t) for t in cs['x0']]))


def check_init(cs):
    import warnings
    import dfols
    n, npt, rhobeg, xl, xu, x0 = cs['n'], cs['npt'], cs['rhobeg'], cs['xl'], cs['xu'], cs['x0']
    A, b = cs['A'], cs['b']
    E = []
    viol = []

    def v(sig, what, **extra):
        d = _init_data(cs)
        d['clause'] = sig
        d.update(extra)
        viol.append(dict(signature=sig, what=what, data=d))

    def objfun(x):
        E.append(np.array(x, dtype=float, copy=True))
        return A.dot(x) + b + 0.1 * math.sin(x[0])
    try:
        with warnings.catch_warnings(), np.errstate(all='ignore'):
            warnings.simplefilter('ignore')
            soln = dfols.solve(objfun, x0.copy(), bounds=(xl.copy(), xu.copy()), npt=npt, rhobeg=rhobeg,
                               rhoend=min(1e-8, 1e-3 * rhobeg), maxfun=npt, scaling_within_bounds=cs['scaled'],
                               do_logging=False)
    except Exception as ex:
        v('C14:init_exception', 'dfols.solve raised %s: %s' % (type(ex).__name__, ex))
        return viol, dict(failed=True)
    if soln.flag == soln.EXIT_INPUT_ERROR:
        v('C14:init_input_rejected', 'legal input rejected: %s' % soln.msg)
        return viol, dict(failed=True)
    if len(E) != npt:
        v('C14:init_eval_count', '%d evaluations recorded with maxfun = npt = %d (flag %s: %s)' %
          (len(E), npt, soln.flag, soln.msg), nevals=len(E))
        if len(E) < 2:
            return viol, dict(failed=True)
    E = np.array(E)
    x0p = np.minimum(np.maximum(x0, xl), xu)
    if cs['scaled']:
        wid = xu - xl
        tol0 = 1e-12 * np.maximum(np.abs(xl), np.abs(xu))
        if not np.all(np.abs(E[0] - x0p) <= tol0):
            v('C14:first_eval_not_projected_x0', 'first evaluation %r, projected x0 %r (scaled run)' %
              (E[0].tolist(), x0p.tolist()), E=_hx(E))
        Z = (E - xl) / wid
        rnd = 1e-12
    else:
        if not np.array_equal(E[0], x0p):
            v('C14:first_eval_not_projected_x0', 'first evaluation %r, projected x0 %r' % (E[0].tolist(), x0p.tolist()),
              E=_hx(E))
        Z = E
        rnd = 4 * EPS * float(np.max(np.abs(E)))
    out = (E < xl) | (E > xu)
    if np.any(out):
        k = int(np.argmax(np.any(out, axis=1)))
        v('C14:init_point_outside_bounds', 'evaluation %d = %r outside the bounds' % (k + 1, E[k].tolist()), E=_hx(E), k=k)
    D = Z[1:] - Z[0]
    dist = np.sqrt(np.sum(D * D, axis=1))
    lo = 0.01 * rhobeg * (1.0 - 1e-8) - rnd
    hi = 2.0 * rhobeg * (1.0 + 1e-8) + rnd
    if np.any(dist < lo):
        k = int(np.argmin(dist))
        v('C14:init_point_too_close', 'evaluation %d is %.6g*rhobeg from x0 (< 0.01)' % (k + 2, dist[k] / rhobeg),
          E=_hx(E), k=k + 1)
    if np.any(dist > hi):
        k = int(np.argmax(dist))
        v('C14:init_point_too_far', 'evaluation %d is %.6g*rhobeg from x0 (> 2)' % (k + 2, dist[k] / rhobeg), E=_hx(E),
          k=k + 1)
    M = D / rhobeg
    conds = {}
    if M.shape[0] >= n:
        for name, rows in (('square', M[:n]), ('all', M)):
            sv = np.linalg.svd(rows, compute_uv=False)
            conds[name] = float(sv[0] / sv[-1]) if sv[-1] > 0 else float('inf')
        if not conds['square'] < 1e4:
            v('C14:init_square_ill_conditioned', 'cond of the first n directions / rhobeg = %.4g' % conds['square'], E=_hx(E))
        if not conds['all'] < 1e4:
            v('C14:init_ill_conditioned', 'ratio of singular values of all %d directions / rhobeg = %.4g' %
              (M.shape[0], conds['all']), E=_hx(E))
    if cs['scaled']:
        gl, gu = (x0 - xl) / (xu - xl), (xu - x0) / (xu - xl)
    else:
        gl, gu = x0 - xl, xu - x0
    near = int(np.sum((gl <= 0.02 * rhobeg) | (gu <= 0.02 * rhobeg)))
    info = dict(near=near, nontrivial=bool(near > 0), cond=conds.get('all'), cond_sq=conds.get('square'),
                dmin=float(np.min(dist) / rhobeg), dmax=float(np.max(dist) / rhobeg), flag=int(soln.flag))
    return viol, info


# ---------------------------------------------------------------------------------------------- direction generators
def gen_dirs(rng):
    n = int(rng.integers(1, 9))
    delta = 10.0 ** rng.uniform(-3, 2)
    pa = float(rng.choice([0.0, 0.15, 0.3, 0.6]))
    pr = (1.0 - pa) / 4.0

    def side():
        k = int(rng.choice(5, p=[pa, pr, pr, pr, pr]))
        if k == 0:
            return 0.0
        if k == 1:
            return delta * 10.0 ** rng.uniform(-15, -3)
        if k == 2:
            return delta * rng.uniform(0.05, 2.0)
        if k == 3:
            return delta * 10.0 ** rng.uniform(1, 3)
        return 1e20
    lower = np.empty(n)
    upper = np.empty(n)
    for i in range(n):
        lo, up = side(), side()
        if lo == 0.0 and up == 0.0:
            if rng.random() < 0.5:
                lo = delta * 10.0 ** rng.uniform(-1, 2)
            else:
                up = delta * 10.0 ** rng.uniform(-1, 2)
        lower[i], upper[i] = -lo, up
    fn = 'random' if rng.random() < 0.4 else 'orthog'
    return dict(fn=fn, n=n, delta=delta, lower=lower, upper=upper, num_pts=int(rng.integers(1, 3 * n + 3)),
                with_neg=bool(rng.random() < 0.8) if fn == 'orthog' else True, npseed=int(rng.integers(0, 2 ** 31 - 1)))


def _dirs_data(cs):
    return dict(fn=cs['fn'], n=cs['n'], delta=_hx(cs['delta']), lower=_hx(cs['lower']), upper=_hx(cs['upper']),
                num_pts=cs['num_pts'], with_neg=cs['with_neg'], npseed=cs['npseed'],
                readable=dict(delta=float(cs['delta']), lower=[float(t) for t in cs['lower']],
                              upper=[float(t) for t in cs['upper']]))


def check_dirs(cs):
    from dfols.util import random_directions_within_bounds, random_orthog_directions_within_bounds
    fn, n, delta, lower, upper, num_pts = cs['fn'], cs['n'], cs['delta'], cs['lower'], cs['upper'], cs['num_pts']
    viol = []

    def v(sig, what, **extra):
        d = _dirs_data(cs)
        d['clause'] = sig
        d.update(extra)
        viol.append(dict(signature=sig, what=what, data=d))
    np.random.seed(cs['npseed'])
    try:
        with np.errstate(all='ignore'):
            if fn == 'random':
                dirs = random_directions_within_bounds(num_pts, delta, lower.copy(), upper.copy())
            else:
                dirs = random_orthog_directions_within_bounds(num_pts, delta, lower.copy(), upper.copy(),
                                                              with_neg_dirns=cs['with_neg'])
    except Exception as ex:
        v('C14:%s_exception' % fn, '%s generator raised %s: %s' % (fn, type(ex).__name__, ex))
        return viol, dict(failed=True)
    dirs = np.asarray(dirs, dtype=float)
    if dirs.shape != (num_pts, n):
        v('C14:%s_dirn_count' % fn, 'asked for %d directions in dimension %d, got an array of shape %r' %
          (num_pts, n, dirs.shape))
        return viol, dict(failed=True)
    active = (lower == 0.0) | (upper == 0.0)
    nact = int(np.sum(active))
    ninact = n - nact
    known = 0
    done = set()
    for i in range(num_pts):
        d = dirs[i]
        if not np.all(np.isfinite(d)):
            if 'nf' not in done:
                v('C14:%s_dirn_nonfinite' % fn, 'direction %d is not finite: %r' % (i, d.tolist()), row=i)
                done.add('nf')
            continue
        if not (np.all(d >= lower) and np.all(d <= upper)):
            if 'ob' not in done:
                v('C14:%s_dirn_outside_bounds' % fn, 'direction %d = %r leaves [lower, upper]' % (i, d.tolist()), row=i)
                done.add('ob')
        nd = float(np.linalg.norm(d))
        if not nd <= delta * (1.0 + 1e-10):
            if fn == 'random':
                sig = 'C14:random_dirn_too_long'
            elif cs['with_neg'] and n + ninact <= i < 2 * n and nd <= 2.0 * delta * (1.0 + 1e-10):
                sig = 'C14:orthog_dirn_too_long'
                known += 1
            else:
                sig = 'C14:orthog_dirn_too_long_elsewhere'
            if sig not in done:
                v(sig, 'direction %d of %d has length %.6g*delta (n=%d, %d inactive coordinates, with_neg_dirns=%s)' %
                  (i, num_pts, nd / delta, n, ninact, cs['with_neg']), row=i)
                done.add(sig)
    info = dict(nact=nact, known=known, nontrivial=bool(nact > 0),
                zero_dirs=int(np.sum(np.all(dirs == 0.0, axis=1))))
    return viol, info


# ---------------------------------------------------------------------------------------------- interface
def tasks(seed, tier):
    q = (tier == 'quick')
    out = []
    i = 0
    for kind, ntask, ncase in (('init', 48 if q else 480, 100 if q else 200), ('dirs', 16 if q else 160, 1500 if q else 3000)):
        for _ in range(ntask):
            out.append(dict(pid=PID, kind=kind, seed=int(seed), i=i, ncases=ncase))
            i += 1
    return out


def run_task(task):
    rng = np.random.default_rng((task['seed'], task['i']))
    kind = task['kind']
    stats, viols, sample = {}, [], None
    nontriv = 0
    for k in range(task['ncases']):
        cs = gen_init(rng) if kind == 'init' else gen_dirs(rng)
        vs, info = check_init(cs) if kind == 'init' else check_dirs(cs)
        for x in vs:
            x['data']['task'] = dict(seed=task['seed'], i=task['i'], case=k, kind=kind)
            _bump(stats, 'violations:' + x['signature'])
        for x in vs:      # at most 5 recorded violations per signature and task (all are counted in stats)
            if sum(1 for y in viols if y['signature'] == x['signature']) < 5:
                viols.append(x)
        if kind == 'init':
            _bump(stats, 'init/n=%d' % cs['n'])
            _bump(stats, 'init/npt-n=%s' % ('1' if cs['npt'] == cs['n'] + 1 else ('n+1' if cs['npt'] == 2 * cs['n'] + 1
                                                                                 else 'between')))
            _bump(stats, 'init/scaled' if cs['scaled'] else 'init/unscaled')
            _bump(stats, 'init/log10rhobeg=%+d' % int(math.floor(math.log10(cs['rhobeg']))))
            for p in cs['place']:
                _bump(stats, 'init/x0_coord:' + p)
            for p in cs['gapkind']:
                _bump(stats, 'init/gap:' + p)
            if not info.get('failed'):
                _bump(stats, 'init/flag=%d' % info['flag'])
                if info['cond'] is not None:
                    c = info['cond']
                    _bump(stats, 'init/cond:' + ('<10' if c < 10 else ('<100' if c < 100 else ('<1e3' if c < 1e3 else
                                                                                                '>=1e3'))))
                if info['dmin'] < 0.02:
                    _bump(stats, 'init/min_dist<0.02rhobeg')
                if info['dmax'] > 1.5:
                    _bump(stats, 'init/max_dist>1.5rhobeg')
        else:
            _bump(stats, 'dirs/%s' % cs['fn'] + ('' if cs['with_neg'] else '(no_neg)'))
            _bump(stats, 'dirs/n=%d' % cs['n'])
            _bump(stats, 'dirs/num_pts:' + ('<=n' if cs['num_pts'] <= cs['n'] else ('<=2n' if cs['num_pts'] <= 2 * cs['n']
                                                                                    else '>2n')))
            if not info.get('failed'):
                _bump(stats, 'dirs/active=%s' % (info['nact'] if info['nact'] < 3 else '3+'))
                if info['known']:
                    _bump(stats, 'dirs/known_finding_cases')
                if info['zero_dirs']:
                    _bump(stats, 'dirs/cases_with_zero_direction')
        if not info.get('failed'):
            nontriv += int(info['nontrivial'])
            if sample is None and info['nontrivial']:
                sample = dict(kind=kind, case=_init_data(cs) if kind == 'init' else _dirs_data(cs),
                              info={kk: (vv if isinstance(vv, (int, float, str, bool)) or vv is None else str(vv))
                                    for kk, vv in info.items()})
    return dict(evaluations=task['ncases'], nontrivial=nontriv, violations=viols, stats=stats, sample=sample)


def replay(data):
    fn = data['fn']
    if fn == 'init':
        n = data['n']
        A = _unhx(data['A'])
        cs = dict(fn='init', n=n, npt=data['npt'], rhobeg=_unhx(data['rhobeg']), xl=_unhx(data['xl']), xu=_unhx(data['xu']),
                  x0=_unhx(data['x0']), scaled=data['scaled'], A=A.reshape(-1, n), b=_unhx(data['b']),
                  place=data.get('place'))
        vs, _ = check_init(cs)
    elif fn in ('random', 'orthog'):
        cs = dict(fn=fn, n=data['n'], delta=_unhx(data['delta']), lower=_unhx(data['lower']), upper=_unhx(data['upper']),
                  num_pts=data['num_pts'], with_neg=data['with_neg'], npseed=data['npseed'])
        vs, _ = check_dirs(cs)
    else:
        raise ValueError('unknown replay record %r' % (fn,))
    want = data.get('clause')
    for x in vs:
        if want is None or x['signature'] == want:
            return x
    return vs[0] if vs else None
