"""Oracle for C20: results survive a JSON round trip and always print.

For result objects of real solves (scenarios below) and for synthetic OptimResults objects, and for both values of
to_dict's replace_nan option:
    d = soln.to_dict(replace_nan)              must not raise
    js = json.dumps(d)                         must work;  json.dumps(d, allow_nan=False) must work when replace_nan
    back = OptimResults.from_dict(json.loads(js))   must not raise
    every field of back equals the field of soln: x, resid, jacobian (None <-> None, else same shape and element-wise
    bit-identical, any NaN == any NaN), obj, nf, nx, nruns, flag, msg, xmin_eval_num, jacmin_eval_nums, and the
    diagnostic table (same columns in the same order, same number of rows in the same order, same row labels up to
    int -> str which JSON forces on dict keys, same cells with None == NaN)
    str(soln) == str(back), neither raises
Results with the input-error flag carry no solution and are outside the property.

Signatures:
  C20:to_dict_raises:<Exc>
  C20:not_json_serialisable:<Exc>        json.dumps(to_dict()) failed
  C20:save_xk_not_serialisable           ... with logging.save_xk / save_rk on (known limitation named by the property)
  C20:not_strict_json:nan                replace_nan=True but a NaN is left in the dict
  C20:not_strict_json:inf                replace_nan=True and the dict holds +-inf (not replaced, not JSON)
  C20:from_dict_raises:<Exc>
  C20:field_mismatch:<field>             x | resid | jacobian | obj | nf | nx | nruns | flag | msg | xmin_eval_num |
                                         jacmin_eval_nums | diagnostic_info
  C20:diagnostic_mismatch:<aspect>       presence | columns | nrows | index | cell:<column>
  C20:str_raises:<Exc>                   str() of the original result
  C20:str_reloaded_raises:<Exc>          str() of the reloaded result
  C20:str_differs
"""
import contextlib, io, json, logging, math, os, signal, sys, time, warnings

for _v in ('OPENBLAS_NUM_THREADS', 'OMP_NUM_THREADS', 'MKL_NUM_THREADS'):   # tiny matrices: BLAS threads only hurt
    os.environ.setdefault(_v, '1')

_REPO = os.environ.get('DFOLS_REPO', '/repo')
if _REPO not in sys.path:
    sys.path.insert(0, _REPO)
import numpy as np
import pandas as pd
import dfols
from dfols.solver import OptimResults
from dfols.diagnostic_info import DiagnosticInfo
from dfols import controller as _ctl

logging.getLogger('dfols').addHandler(logging.NullHandler())

RULE = ("Real results: dfols.solve on random problems (linear+sine, Rosenbrock chain, exponential fit, consistent linear "
        "system) under scenarios chosen to spread the exit flags and the shapes of the result: plain, diagnostics on "
        "(with/without poisedness), maxfun=1 and maxfun<=n (no Jacobian), m around 100 / m*n around 200 / npt around 100 "
        "(the three printing thresholds of __str__), NaN at the k-th evaluation (k=1, during initialisation, in the main "
        "loop; whole vector or one entry) or in a region, +-inf everywhere, noisy objective with soft / hard restarts "
        "(nruns>1), slow-progress and false-success settings, projections, regulariser, bounds with/without scaling, "
        "objective reaching zero.  Synthetic results: OptimResults built directly with every exit flag except the input "
        "error, NaN in x / resid / obj / Jacobian, None for Jacobian / jacmin_eval_nums / diagnostic table, empty and "
        "filled diagnostic tables with None / NaN cells, sizes at the thresholds, numpy and Python scalars.  Each object "
        "is round-tripped with replace_nan=True and False; evaluations = round trips.  A round trip is non-trivial when "
        "the object has at least one of: a NaN or inf anywhere, a None Jacobian or None jacmin_eval_nums, a non-empty "
        "diagnostic table, a size at/over a printing threshold, nruns > 1, or an exit flag other than 0 / 1.  "
        "logging.save_xk / save_rk are never switched on (known limitation).  Everything derives from "
        "numpy.random.default_rng((seed, i)).")

CPU_NOEVAL_LIMIT = 6.0
CPU_TOTAL_LIMIT = 20.0
FLAGS = dict((nm, getattr(_ctl, nm)) for nm in dir(_ctl) if nm.startswith('EXIT_'))
INPUT_ERROR = FLAGS['EXIT_INPUT_ERROR']


# ---------------------------------------------------------------------------------------------------- helpers
def hxl(a):
    return [float(x).hex() for x in np.asarray(a, dtype=float).ravel()]


def unhxl(l):
    return np.array([float.fromhex(s) for s in l], dtype=float)


def enc(v):
    if v is None:
        return {'t': 'none'}
    if isinstance(v, (bool, np.bool_)):
        return {'t': 'bool', 'v': bool(v)}
    if isinstance(v, (int, np.integer)):
        return {'t': 'int', 'v': int(v)}
    if isinstance(v, (float, np.floating)):
        return {'t': 'float', 'v': float(v).hex()}
    raise TypeError('cannot encode %r' % (v,))


def dec(e):
    if e['t'] == 'none':
        return None
    if e['t'] == 'float':
        return float.fromhex(e['v'])
    return e['v']


class _Counter(object):
    def __init__(self):
        self.calls = 0
        self.last_cpu = time.process_time()


class _Abort(BaseException):
    pass


class _Watch(object):
    """CPU-time watchdog on SIGPROF (leaves the caller's SIGALRM alone): abandons a solve that spins"""

    def __init__(self, counter):
        self.counter = counter

    def __enter__(self):
        self.t0 = time.process_time()
        self.counter.last_cpu = self.t0

        def handler(signum, frame):
            now = time.process_time()
            if now - self.counter.last_cpu > CPU_NOEVAL_LIMIT or now - self.t0 > CPU_TOTAL_LIMIT:
                raise _Abort()
        self.old = signal.signal(signal.SIGPROF, handler)
        signal.setitimer(signal.ITIMER_PROF, 0.5, 0.5)
        return self

    def __exit__(self, *a):
        signal.setitimer(signal.ITIMER_PROF, 0.0, 0.0)
        signal.signal(signal.SIGPROF, self.old)
        return False


# ---------------------------------------------------------------------------------------------------- problems
def make_objfun(prob, counter):
    kind, n, m = prob['kind'], prob['n'], prob['m']
    r = np.random.default_rng((prob['pseed'], 1))
    noise_rng = np.random.default_rng((prob['pseed'], 2))
    sd = float.fromhex(prob.get('noise', float(0.0).hex()))
    nan_at = set(prob.get('nan_at') or [])
    nan_one = prob.get('nan_mode') == 'one'
    nan_below = float.fromhex(prob['nan_below']) if prob.get('nan_below') is not None else None
    inf_all = prob.get('inf_all')
    if kind in ('lin', 'zero'):
        A = r.normal(size=(m, n))
        if kind == 'zero':
            xs = r.normal(size=n)
            b = A.dot(xs)

            def base(x):
                return A.dot(x) - b
        else:
            b = r.normal(size=m)
            C = r.normal(size=(m, n))

            def base(x):
                return A.dot(x) - b + 0.05 * np.sin(C.dot(x))
    elif kind == 'rosen':
        def base(x):
            out = np.zeros(2 * (n - 1))
            out[0::2] = 10.0 * (x[1:] - x[:-1] ** 2)
            out[1::2] = 1.0 - x[:-1]
            return out
    elif kind == 'exp':
        t = np.linspace(0.0, 1.0, m)
        y = 1.3 * np.exp(-0.7 * t) + 0.01 * r.normal(size=m)

        def base(x):
            return x[0] * np.exp(np.minimum(x[1] * t, 50.0)) - y
    else:
        raise ValueError('unknown problem kind %r' % kind)

    def objfun(x):
        counter.calls += 1
        counter.last_cpu = time.process_time()
        out = base(np.asarray(x, dtype=float))
        if sd > 0.0:
            out = out * (1.0 + sd * noise_rng.normal(size=out.shape))
        if counter.calls in nan_at or (nan_below is not None and x[0] < nan_below):
            if nan_one:
                out = out.copy()
                out[len(out) // 2] = np.nan
            else:
                out = out * np.nan
        if inf_all == 'pos':
            out = np.abs(out) * np.inf
        elif inf_all == 'neg':
            out = -np.abs(out) * np.inf
        elif inf_all == 'one':
            out = out.copy()
            out[0] = np.inf
        return out
    return objfun


def make_projection(p):
    if p['t'] == 'ball':
        rad = float.fromhex(p['r'])
        return lambda x: x * (rad / max(rad, float(np.linalg.norm(x))))
    if p['t'] == 'half':
        a = unhxl(p['a'])
        b = float.fromhex(p['b'])
        aa = float(a.dot(a))

        def proj(x):
            s = float(a.dot(x)) - b
            return x - (s / aa) * a if s > 0.0 else x.copy()
        return proj
    raise ValueError(p['t'])


def _prob(rng, kind, n, m=None):
    if kind == 'rosen':
        m = 2 * (n - 1)
    if kind == 'exp':
        n = 2
    return {'kind': kind, 'n': n, 'm': int(m), 'pseed': int(rng.integers(1 << 30)),
            'x0': hxl(np.array([1.0, -0.5]) + np.round(0.2 * rng.normal(size=2), 3) if kind == 'exp'
                      else np.round(rng.normal(size=n), 3)),
            'noise': float(0.0).hex()}


def gen_scenario(rng, name=None):
    """a JSON-able description of one real solve"""
    names = ['plain', 'plain', 'diag', 'diag', 'maxfun1', 'maxfun_small', 'big_m', 'big_jac', 'big_npt', 'nan_eval',
             'nan_eval', 'nan_eval_diag', 'nan_region', 'inf', 'noise_restarts', 'noise_restarts', 'hard_restarts', 'slow',
             'false_success', 'proj', 'regu', 'bounds', 'scaling', 'zero', 'growing', 'npt_more']
    if name is None:
        name = names[int(rng.integers(len(names)))]
    kind = ['lin', 'lin', 'rosen', 'exp'][int(rng.integers(4))]
    n = int(rng.integers(2, 6))
    prob = _prob(rng, kind, n, int(rng.integers(max(1, n - 1), n + 5)))
    n = prob['n']
    sc = {'name': name, 'prob': prob, 'args': {}, 'bounds': None, 'proj': None, 'regu': None, 'up': {},
          'seed': int(rng.integers(1 << 30))}
    args, up = sc['args'], sc['up']
    args['maxfun'] = enc(int(rng.choice([10, 20, 40, 80])))
    if rng.random() < 0.3:
        args['rhoend'] = enc(float(10.0 ** rng.uniform(-8, -3)))
    diag = rng.random() < 0.35

    def lin(nn, mm):
        sc['prob'] = _prob(rng, 'lin', nn, mm)
        return nn
    if name == 'diag':
        diag = True
    elif name == 'maxfun1':
        args['maxfun'] = enc(1)
    elif name == 'maxfun_small':
        args['maxfun'] = enc(int(rng.integers(2, n + 1)))
    elif name == 'big_m':
        n = lin(int(rng.integers(1, 4)), int(rng.choice([99, 100, 101, 150])))
        args['maxfun'] = enc(int(rng.integers(1, 15)))
    elif name == 'big_jac':
        mm, nn = [(40, 5), (25, 8), (33, 6), (67, 3), (50, 4), (199, 1), (200, 1), (20, 10)][int(rng.integers(8))]
        n = lin(nn, mm)
        args['maxfun'] = enc(int(rng.integers(n + 2, n + 12)))
    elif name == 'big_npt':
        if rng.random() < 0.5:
            n = lin(int(rng.integers(2, 5)), int(rng.integers(3, 8)))
            npt = int(rng.choice([99, 100, 101, 120]))
        else:
            n = lin(int(rng.choice([98, 99, 100])), int(rng.integers(3, 8)))
            npt = n + 1
        args['npt'] = enc(npt)
        args['maxfun'] = enc(npt + int(rng.integers(1, 6)))
    elif name in ('nan_eval', 'nan_eval_diag'):
        which = rng.random()
        k = 1 if which < 0.25 else (int(rng.integers(2, n + 2)) if which < 0.6 else int(rng.integers(n + 2, n + 14)))
        sc['prob']['nan_at'] = [k] if rng.random() < 0.8 else [k, k + 1, k + 3]
        sc['prob']['nan_mode'] = 'one' if rng.random() < 0.4 else 'all'
        diag = (name == 'nan_eval_diag') or diag
        if rng.random() < 0.3:
            up['restarts.use_restarts'] = True
    elif name == 'nan_region':
        x0 = unhxl(sc['prob']['x0'])
        sc['prob']['nan_below'] = float(x0[0] - rng.uniform(0.0, 0.3)).hex()
        sc['prob']['nan_mode'] = 'one' if rng.random() < 0.4 else 'all'
    elif name == 'inf':
        sc['prob']['inf_all'] = ['pos', 'neg', 'one'][int(rng.integers(3))]
    elif name in ('noise_restarts', 'hard_restarts'):
        sc['prob']['noise'] = float(rng.choice([1e-2, 0.1])).hex()
        args['objfun_has_noise'] = enc(True)
        args['rhoend'] = enc(1e-3)
        args['maxfun'] = enc(int(rng.choice([40, 80, 120])))
        if rng.random() < 0.4:
            # restarts that add interpolation points (Model.add_new_point extends every per-point array)
            up['restarts.increase_npt'] = True
            up['restarts.increase_npt_amt'] = int(rng.integers(1, 3))
            up['restarts.max_npt'] = int(dec(args['npt'])) + 4 if 'npt' in args else n + 1 + int(rng.integers(2, 5))
        if name == 'hard_restarts':
            up['restarts.use_soft_restarts'] = False
            if rng.random() < 0.5:
                up['restarts.max_unsuccessful_restarts'] = int(rng.integers(1, 4))
    elif name == 'slow':
        up['slow.max_slow_iters'] = int(rng.integers(1, 4))
        up['slow.thresh_for_slow'] = float(rng.choice([1.0, 10.0, 1e3]))
        up['slow.history_for_slow'] = int(rng.integers(1, 4))
        args['maxfun'] = enc(100)
    elif name == 'false_success':
        sc['prob']['noise'] = float(0.1).hex()
        up['restarts.use_restarts'] = True
        up['restarts.soft.max_fake_successful_steps'] = int(rng.integers(1, 3))
        args['rhoend'] = enc(1e-2)
        args['maxfun'] = enc(150)
    elif name == 'proj':
        sc['proj'] = [{'t': 'ball', 'r': float(rng.uniform(0.5, 3.0)).hex()}]
        if rng.random() < 0.6:
            sc['proj'].append({'t': 'half', 'a': hxl(rng.normal(size=n)), 'b': float(rng.uniform(-0.5, 1.0)).hex()})
        args['maxfun'] = enc(int(rng.integers(8, 30)))
        up['dykstra.max_iters'] = 20
    elif name == 'regu':
        lam = float(rng.choice([0.01, 0.1, 1.0]))
        sc['regu'] = {'lam': lam.hex()}
        args['maxfun'] = enc(int(rng.integers(8, 25)))
        up['func_tol.max_iters'] = 30
        up['dykstra.max_iters'] = 10
    elif name in ('bounds', 'scaling'):
        x0 = unhxl(sc['prob']['x0'])
        w = rng.uniform(1.0, 4.0, size=n)
        lo = x0 - rng.uniform(0.0, 1.0, size=n) * w
        sc['bounds'] = {'lo': hxl(lo), 'hi': hxl(lo + w)}
        if name == 'scaling':
            args['scaling_within_bounds'] = enc(True)
    elif name == 'zero':
        nn = int(rng.integers(2, 5))
        sc['prob'] = _prob(rng, 'zero', nn, nn + int(rng.integers(0, 3)))
        args['maxfun'] = enc(100)
    elif name == 'growing':
        if n < 3:
            n = lin(3, 5)
        up['growing.ndirs_initial'] = int(rng.integers(1, n))
    elif name == 'npt_more':
        args['npt'] = enc(n + 1 + int(rng.integers(1, n + 1)))
    if diag:
        up['logging.save_diagnostic_info'] = True
        if rng.random() < 0.3:
            up['logging.save_poisedness'] = False
    sc['up'] = dict((k, enc(v)) for k, v in up.items())
    return sc


def run_scenario(sc):
    """returns (soln or None, status)"""
    counter = _Counter()
    prob = sc['prob']
    objfun = make_objfun(prob, counter)
    x0 = unhxl(prob['x0'])
    kw = dict((k, dec(e)) for k, e in sc['args'].items())
    if sc.get('bounds'):
        kw['bounds'] = (unhxl(sc['bounds']['lo']), unhxl(sc['bounds']['hi']))
    if sc.get('proj'):
        kw['projections'] = [make_projection(p) for p in sc['proj']]
    if sc.get('regu'):
        lam = float.fromhex(sc['regu']['lam'])
        kw['h'] = lambda x: lam * float(np.sum(np.abs(x)))
        kw['prox_uh'] = lambda x, u: np.sign(x) * np.maximum(np.abs(x) - lam * u, 0.0)
        kw['lh'] = lam * math.sqrt(prob['n'])
    if sc.get('up'):
        kw['user_params'] = dict((k, dec(e)) for k, e in sc['up'].items())
    np.random.seed(sc['seed'] % (2 ** 32))
    with warnings.catch_warnings():
        warnings.simplefilter('ignore')
        old = np.seterr(all='ignore')
        try:
            with _Watch(counter), contextlib.redirect_stdout(io.StringIO()):
                soln = dfols.solve(objfun, x0, **kw)
        except _Abort:
            return None, 'solve_abandoned'
        except Exception as ex:
            return None, 'solve_raised_%s' % type(ex).__name__
        finally:
            np.seterr(**old)
    return soln, 'ok'


# ---------------------------------------------------------------------------------------------------- synthetic
def gen_synthetic(rng):
    flags = sorted(v for v in FLAGS.values() if v != INPUT_ERROR)
    sizes = [(2, 3), (3, 2), (1, 1), (5, 99), (5, 100), (4, 50), (3, 66), (3, 67), (1, 199), (1, 200), (10, 20), (12, 5)]
    n, m = sizes[int(rng.integers(len(sizes)))]
    return {'n': n, 'm': m, 'npt': int(rng.choice([n + 1, n + 3, 99, 100, 101])),
            'flag': int(flags[int(rng.integers(len(flags)))]), 'nruns': int(rng.choice([0, 1, 1, 2, 7])),
            'nan_x': bool(rng.random() < 0.25), 'nan_resid': ['none', 'none', 'some', 'all'][int(rng.integers(4))],
            'obj': ['finite', 'finite', 'nan', 'zero', 'negzero'][int(rng.integers(5))],
            'jac': ['none', 'finite', 'finite', 'nan_some', 'nan_all'][int(rng.integers(5))],
            'jnums': ['none', 'ints', 'ints'][int(rng.integers(3))],
            'diag': ['none', 'none', 'empty', 'table', 'table'][int(rng.integers(5))],
            'numpy_scalars': bool(rng.random() < 0.5), 'sseed': int(rng.integers(1 << 30))}


def build_synthetic(sp):
    r = np.random.default_rng((sp['sseed'], 3))
    n, m = sp['n'], sp['m']
    x = r.normal(size=n)
    if sp['nan_x']:
        x[int(r.integers(n))] = np.nan
    resid = r.normal(size=m) * 10.0 ** r.integers(-8, 8, size=m)
    if sp['nan_resid'] == 'some':
        resid[r.random(size=m) < 0.3] = np.nan
        resid[0] = np.nan
    elif sp['nan_resid'] == 'all':
        resid[:] = np.nan
    obj = {'finite': float(r.uniform(0, 100)), 'nan': float('nan'), 'zero': 0.0, 'negzero': -0.0}[sp['obj']]
    if sp['jac'] == 'none':
        jac = None
    else:
        jac = r.normal(size=(m, n))
        if sp['jac'] == 'nan_some':
            jac[r.random(size=(m, n)) < 0.2] = np.nan
            jac[0, 0] = np.nan
        elif sp['jac'] == 'nan_all':
            jac[:] = np.nan
    jnums = None if sp['jnums'] == 'none' else r.integers(1, 500, size=sp['npt'])
    nf, nx, xnum = int(r.integers(1, 1000)), int(r.integers(1, 1000)), int(r.integers(0, 500))
    nruns = sp['nruns']
    if sp['numpy_scalars']:
        obj, nf, nx, nruns, xnum = np.float64(obj), np.int64(nf), np.int64(nx), np.int64(nruns), np.int64(xnum)
    info = _ctl.ExitInformation(sp['flag'], 'synthetic result %d' % sp['sseed'])
    soln = OptimResults(x, resid, obj, jac, nf, nx, nruns, sp['flag'], info.message(with_stem=True), xnum, jnums)
    if sp['diag'] != 'none':
        di = DiagnosticInfo()
        rows = 0 if sp['diag'] == 'empty' else int(r.integers(1, 25))
        for i in range(rows):
            last = (i == rows - 1)
            for key in di.data:
                if key in ('xk', 'rk'):
                    di.data[key].append(None)
                elif key in ('nruns', 'nf', 'nx', 'npt', 'nsamples', 'iter_this_run', 'iters_total'):
                    di.data[key].append(int(r.integers(0, 100)) if r.random() < 0.5 else np.int64(r.integers(0, 100)))
                elif key == 'iter_type':
                    di.data[key].append(None if last else ['Very successful', 'Safety', 'Unsuccessful (geom fixed)'][int(r.integers(3))])
                elif key in ('ratio', 'slow_iter', 'norm_gk', 'norm_sk', 'interpolation_error'):
                    di.data[key].append(None if (last or r.random() < 0.2) else float(r.normal()))
                else:
                    v = float(r.normal())
                    di.data[key].append(float('nan') if r.random() < 0.1 else (np.float64(v) if r.random() < 0.5 else v))
        soln.diagnostic_info = di.to_dataframe(with_xk=False, with_rk=False)
    return soln


# ---------------------------------------------------------------------------------------------------- the check
def _isnan(v):
    return isinstance(v, (float, np.floating)) and math.isnan(float(v))


def _same_float(a, b):
    """bit-identical, any NaN equal to any NaN"""
    a, b = float(a), float(b)
    if math.isnan(a) or math.isnan(b):
        return math.isnan(a) and math.isnan(b)
    return a == b and math.copysign(1.0, a) == math.copysign(1.0, b)


def _same_array(a, b):
    if a is None or b is None:
        return a is None and b is None
    a, b = np.asarray(a), np.asarray(b)
    if a.shape != b.shape:
        return False
    if a.dtype.kind in 'iu' and b.dtype.kind in 'iu':
        return bool(np.array_equal(a, b))
    if b.dtype != np.float64 and a.dtype == np.float64:
        return False
    a = a.astype(np.float64)
    b = b.astype(np.float64)
    na, nb = np.isnan(a), np.isnan(b)
    if not np.array_equal(na, nb):
        return False
    return bool(np.array_equal(a[~na].view(np.int64), b[~nb].view(np.int64)))


def _same_int(a, b):
    try:
        return (not isinstance(b, bool)) and int(a) == int(b) and float(b) == int(b)
    except Exception:
        return False


def _cell_null(v):
    if v is None:
        return True
    try:
        return bool(pd.isna(v))
    except Exception:
        return False


def _same_cell(a, b):
    if _cell_null(a) or _cell_null(b):
        return _cell_null(a) and _cell_null(b)
    if isinstance(a, str) or isinstance(b, str):
        return isinstance(a, str) and isinstance(b, str) and a == b
    if isinstance(a, (bool, np.bool_)) or isinstance(b, (bool, np.bool_)):
        return bool(a) == bool(b)
    try:
        return _same_float(a, b)
    except Exception:
        return False


def _scan(d):
    """(has_nan, has_inf) in nested dict/list data"""
    has_nan = has_inf = False
    stack = [d]
    while stack:
        v = stack.pop()
        if isinstance(v, dict):
            stack.extend(v.values())
        elif isinstance(v, (list, tuple)):
            stack.extend(v)
        elif isinstance(v, (float, np.floating)):
            if math.isnan(v):
                has_nan = True
            elif math.isinf(v):
                has_inf = True
    return has_nan, has_inf


def compare_diag(a, b):
    """list of (aspect, detail)"""
    if a is None or b is None:
        return [] if (a is None and b is None) else [('presence', 'original %s, reloaded %s'
                                                    % ('None' if a is None else 'table', 'None' if b is None else 'table'))]
    if not isinstance(b, pd.DataFrame):
        return [('presence', 'reloaded diagnostic_info is a %s' % type(b).__name__)]
    if list(map(str, a.columns)) != list(map(str, b.columns)):
        return [('columns', '%s vs %s' % (list(a.columns), list(b.columns)))]
    if len(a) != len(b):
        return [('nrows', '%d vs %d' % (len(a), len(b)))]
    if [str(i) for i in a.index] != [str(i) for i in b.index]:
        return [('index', '%s vs %s' % (list(a.index)[:12], list(b.index)[:12]))]
    out = []
    for col in a.columns:
        ca, cb = a[col].tolist(), b[col].tolist()
        for i, (u, v) in enumerate(zip(ca, cb)):
            if not _same_cell(u, v):
                out.append(('cell:%s' % col, 'row %d: %r vs %r' % (i, u, v)))
                break
    return out


def features(soln):
    f = []
    arrs = [soln.x, soln.resid, soln.jacobian]
    if any(a is not None and np.any(np.isnan(a)) for a in arrs) or _isnan(soln.obj):
        f.append('nan')
    if any(a is not None and np.any(np.isinf(a)) for a in arrs) or (isinstance(soln.obj, (float, np.floating)) and math.isinf(soln.obj)):
        f.append('inf')
    if soln.jacobian is None:
        f.append('jacobian_none')
    if soln.jacmin_eval_nums is None:
        f.append('jacnums_none')
    if soln.diagnostic_info is not None:
        f.append('diag_table' if len(soln.diagnostic_info) > 0 else 'diag_empty')
    if soln.resid is not None and len(soln.resid) >= 100:
        f.append('m>=100')
    if soln.jacobian is not None and np.size(soln.jacobian) >= 200:
        f.append('jac_size>=200')
    if soln.jacmin_eval_nums is not None and len(soln.jacmin_eval_nums) >= 100:
        f.append('npt>=100')
    if soln.nruns > 1:
        f.append('nruns>1')
    if soln.flag not in (0, 1):
        f.append('flag_other')
    return f


def check_roundtrip(soln, replace_nan, save_xk=False):
    """list of (signature, what) for one object and one mode"""
    mode = 'replace_nan=%s' % replace_nan
    out = []
    s1 = None
    try:
        s1 = str(soln)
    except Exception as ex:
        out.append(('C20:str_raises:%s' % type(ex).__name__, 'str(original) raised %s: %s' % (type(ex).__name__, ex)))
    try:
        d = soln.to_dict(replace_nan=replace_nan)
    except Exception as ex:
        out.append(('C20:to_dict_raises:%s' % type(ex).__name__, 'to_dict(%s) raised %s: %s' % (mode, type(ex).__name__, ex)))
        return out
    try:
        js = json.dumps(d)
    except Exception as ex:
        sig = 'C20:save_xk_not_serialisable' if save_xk else 'C20:not_json_serialisable:%s' % type(ex).__name__
        out.append((sig, 'json.dumps(to_dict(%s)) raised %s: %s' % (mode, type(ex).__name__, ex)))
        return out
    if replace_nan:
        try:
            json.dumps(d, allow_nan=False)
        except ValueError as ex:
            has_nan, has_inf = _scan(d)
            if has_nan:
                out.append(('C20:not_strict_json:nan', 'to_dict(replace_nan=True) still holds NaN: %s' % ex))
            if has_inf or not has_nan:
                out.append(('C20:not_strict_json:inf', 'to_dict(replace_nan=True) holds +-inf, json.dumps(allow_nan=False): %s' % ex))
    try:
        back = OptimResults.from_dict(json.loads(js))
    except Exception as ex:
        out.append(('C20:from_dict_raises:%s' % type(ex).__name__,
                    'from_dict(json.loads(json.dumps(to_dict(%s)))) raised %s: %s' % (mode, type(ex).__name__, ex)))
        return out
    for name in ('x', 'resid', 'jacobian'):
        if not _same_array(getattr(soln, name), getattr(back, name)):
            out.append(('C20:field_mismatch:%s' % name, '%s (%s): %r vs %r' % (name, mode, getattr(soln, name), getattr(back, name))))
    try:
        ok = isinstance(back.obj, (float, np.floating)) and _same_float(soln.obj, back.obj)
    except Exception:
        ok = False
    if not ok:
        out.append(('C20:field_mismatch:obj', 'obj (%s): %r vs %r' % (mode, soln.obj, back.obj)))
    for name in ('nf', 'nx', 'nruns', 'flag', 'xmin_eval_num'):
        if not _same_int(getattr(soln, name), getattr(back, name)):
            out.append(('C20:field_mismatch:%s' % name, '%s (%s): %r vs %r' % (name, mode, getattr(soln, name), getattr(back, name))))
    if not (isinstance(back.msg, str) and back.msg == soln.msg):
        out.append(('C20:field_mismatch:msg', 'msg (%s): %r vs %r' % (mode, soln.msg, back.msg)))
    a, b = soln.jacmin_eval_nums, back.jacmin_eval_nums
    if not ((a is None and b is None) or (a is not None and b is not None and np.asarray(b).dtype.kind in 'iu'
                                          and _same_array(a, b))):
        out.append(('C20:field_mismatch:jacmin_eval_nums', 'jacmin_eval_nums (%s): %r vs %r' % (mode, a, b)))
    for aspect, detail in compare_diag(soln.diagnostic_info, back.diagnostic_info):
        out.append(('C20:diagnostic_mismatch:%s' % aspect, 'diagnostic table (%s): %s' % (mode, detail)))
    try:
        s2 = str(back)
        if s1 is not None and s1 != s2:
            out.append(('C20:str_differs', 'str(original) != str(reloaded) (%s):\n%s\n---\n%s' % (mode, s1[:600], s2[:600])))
    except Exception as ex:
        out.append(('C20:str_reloaded_raises:%s' % type(ex).__name__,
                    'str(reloaded) raised %s: %s (%s)' % (type(ex).__name__, ex, mode)))
    return out


# ---------------------------------------------------------------------------------------------------- interface
def tasks(seed, tier):
    quick = (tier == 'quick')
    out = []
    i = 0
    for j in range(96 if quick else 1920):
        out.append(('real', int(seed), i, 10))
        i += 1
    for j in range(16 if quick else 320):
        out.append(('synthetic', int(seed), i, 60))
        i += 1
    return out


def _examine(soln, data, stats, save_xk=False):
    """both modes on one object; returns (violations, evaluations, nontrivial)"""
    viols = []
    ft = features(soln)
    for f in ft:
        stats['feature:' + f] = stats.get('feature:' + f, 0) + 1
    fk = 'flag_%s:%s' % ('real' if 'scenario' in data else 'synthetic', soln.flag)
    stats[fk] = stats.get(fk, 0) + 1
    if not ft:
        stats['feature:none'] = stats.get('feature:none', 0) + 1
    for rn in (True, False):
        for sig, what in check_roundtrip(soln, rn, save_xk=save_xk):
            dd = dict(data)
            dd['replace_nan'] = rn
            dd['signature'] = sig
            viols.append(dict(signature=sig, what=what, data=dd))
    return viols, 2, (2 if ft else 0)


def run_task(task):
    kind, seed, i, count = task
    rng = np.random.default_rng((seed, i))
    stats, violations, per_sig = {}, [], {}
    evaluations = nontrivial = 0
    sample = None
    for j in range(count):
        if kind == 'real':
            sc = gen_scenario(rng)
            stats['scenario:' + sc['name']] = stats.get('scenario:' + sc['name'], 0) + 1
            soln, status = run_scenario(sc)
            if soln is None:
                stats[status] = stats.get(status, 0) + 1       # C07's business, not a round-trip failure
                continue
            if soln.flag == INPUT_ERROR:
                stats['skipped_input_error'] = stats.get('skipped_input_error', 0) + 1
                continue
            data = {'scenario': sc}
        elif kind == 'synthetic':
            sp = gen_synthetic(rng)
            soln = build_synthetic(sp)
            stats['synthetic'] = stats.get('synthetic', 0) + 1
            data = {'synthetic': sp}
        else:
            raise ValueError('unknown task kind %r' % (kind,))
        vs, ev, nt = _examine(soln, data, stats)
        evaluations += ev
        nontrivial += nt
        for v in vs:
            stats['violation:' + v['signature']] = stats.get('violation:' + v['signature'], 0) + 1
            per_sig[v['signature']] = per_sig.get(v['signature'], 0) + 1
            if per_sig[v['signature']] <= 2:
                violations.append(v)
        if sample is None and features(soln):
            sample = dict(data, flag=int(soln.flag), msg=str(soln.msg), features=features(soln),
                          json_length=len(json.dumps(soln.to_dict())))
    return dict(evaluations=evaluations, nontrivial=nontrivial, violations=violations, stats=stats, sample=sample)


def replay(data):
    if 'scenario' in data:
        soln, status = run_scenario(data['scenario'])
        if soln is None or soln.flag == INPUT_ERROR:
            return None
    else:
        soln = build_synthetic(data['synthetic'])
    found = check_roundtrip(soln, bool(data.get('replace_nan', True)))
    if not found:
        return None
    for sig, what in found:
        if sig == data.get('signature'):
            return dict(signature=sig, what=what, data=data)
    sig, what = found[0]
    return dict(signature=sig, what=what, data=dict(data, signature=sig))
