"""Oracle for C19: results are reproducible (independent of the state of NumPy's global generator and of earlier calls
in the same process) unless a documented random option is on, and the caller's x0 / bounds / user_params are never
modified.  Runs the real dfols.solve three times per case, see RULE.

Signatures:
  C19:sequence_differs:global_rng       evaluation sequences differ between np.random.seed(a) and np.random.seed(b)
  C19:sequence_differs:repeated_call    evaluation sequences differ between two calls in a row in one process
  C19:rng_in_projection_init            the same, in a configuration with projections and starting inside the
                                        initialisation phase (Controller.initialise_coordinate_directions draws random
                                        sign patterns / directions when the projected coordinate steps are rank deficient)
  C19:result_differs:global_rng / C19:result_differs:repeated_call    same evaluations, different result object
  C19:x0_modified  C19:bounds_modified  C19:user_params_modified      caller data changed by solve
"""
# ======================================================================================================================
# shared core: problem specs, builders, recording objective wrapper.  This block is duplicated verbatim in
# C08.py / C10.py / C18.py / C19.py (the oracle modules are required to be self-contained) - keep the copies in sync.
# ======================================================================================================================
import copy, logging, math, os, sys, warnings

for _v in ('OPENBLAS_NUM_THREADS', 'OMP_NUM_THREADS', 'MKL_NUM_THREADS'):   # tiny matrices: BLAS threads only hurt
    os.environ.setdefault(_v, '1')

_REPO = os.environ.get('DFOLS_REPO', '/repo')
if _REPO not in sys.path:
    sys.path.insert(0, _REPO)
import numpy as np
import dfols

logging.getLogger('dfols').addHandler(logging.NullHandler())   # the solver logs some warnings unconditionally


def hx(v):
    """float / array -> hex string / nested list of hex strings (exact)"""
    if v is None:
        return None
    a = np.asarray(v, dtype=float)
    if a.ndim == 0:
        return float(a).hex()
    return [hx(e) for e in a]


def unhx(v):
    if v is None:
        return None
    if isinstance(v, str):
        return float.fromhex(v)
    return np.array([unhx(e) for e in v], dtype=float)


def enc_params(d):
    """user_params with floats written as 'f:<hex>' (ints, bools, None stay as they are)"""
    out = {}
    for k, v in d.items():
        if isinstance(v, bool) or v is None or isinstance(v, int):
            out[k] = v
        else:
            out[k] = 'f:' + float(v).hex()
    return out


def dec_params(d):
    out = {}
    for k, v in d.items():
        out[k] = float.fromhex(v[2:]) if isinstance(v, str) and v.startswith('f:') else v
    return out


class FaultError(Exception):
    pass


def _resid_fun(spec):
    kind = spec['kind']
    n, m = spec['n'], spec['m']
    if kind == 'rosen':
        def f(x):
            r = np.empty(2 * (n - 1))
            r[0::2] = 10.0 * (x[1:] - x[:-1] ** 2)
            r[1::2] = 1.0 - x[:-1]
            return r
        return f
    A, b = unhx(spec['A']), unhx(spec['b'])
    if kind == 'lin':
        return lambda x: A.dot(x) - b
    if kind == 'nl':
        return lambda x: A.dot(x) - b + 0.5 * np.sin(A.dot(x))
    raise ValueError('unknown problem kind %r' % (kind,))


def _make_projection(p):
    if p[0] == 'ball':
        c, r = unhx(p[1]), unhx(p[2])
        return lambda x: dfols.util.pball(x, c, r)
    if p[0] == 'box':
        l, u = unhx(p[1]), unhx(p[2])
        return lambda x: dfols.util.pbox(x, l, u)
    if p[0] == 'halfspace':          # {x : a.x <= beta}
        a, beta = unhx(p[1]), unhx(p[2])
        aa = float(a.dot(a))
        return lambda x: x - (max(float(a.dot(x)) - beta, 0.0) / aa) * a
    raise ValueError('unknown projection %r' % (p[0],))


class Rec(object):
    """the user's residual function: counts calls, records (x, r) of every call, optionally injects one fault.
    fault = [k, kind, which, persist]: at call k (and at every later call if persist) the returned vector gets
    entry 0 ('one') or all entries ('all') replaced by NaN / +inf / -inf / 1e200, or FaultError is raised."""
    VALUES = {'nan': float('nan'), 'pinf': float('inf'), 'ninf': float('-inf'), 'big': 1e200}

    def __init__(self, spec, fault=None):
        self.f = _resid_fun(spec)
        self.lam = unhx(spec.get('reg'))
        self.sigma = unhx(spec.get('noise'))
        self.noise_rng = np.random.default_rng(spec.get('noise_seed', 0)) if self.sigma else None  # never the global RNG
        self.fault = fault
        self.xs, self.rs = [], []
        self.ncalls = 0
        self.delivered_at = None      # first call at which the fault was delivered
        self.exc = None
        self.calls_after_exc = 0

    def __call__(self, x):
        self.ncalls += 1
        if self.exc is not None:
            self.calls_after_exc += 1
        self.xs.append(np.array(x, dtype=float, copy=True))
        r = self.f(x)
        if self.noise_rng is not None:
            r = r + self.sigma * self.noise_rng.standard_normal(len(r))
        if self.fault is not None:
            k, kind, which, persist = self.fault
            if self.ncalls == k or (persist and self.ncalls > k):
                if self.delivered_at is None:
                    self.delivered_at = self.ncalls
                if kind == 'raise':
                    self.rs.append(None)
                    self.exc = FaultError('injected at call %d' % self.ncalls)
                    raise self.exc
                r = np.array(r, dtype=float, copy=True)
                if which == 'all':
                    r[:] = self.VALUES[kind]
                else:
                    r[0] = self.VALUES[kind]
        self.rs.append(np.array(r, dtype=float, copy=True))
        return r

    def hval(self, x):
        return 0.0 if self.lam is None else self.lam * float(np.sum(np.abs(x)))

    def obj(self, j):
        """objective value of call j (0-based) as the solver defines it: sum of squares (+ regulariser)"""
        r = self.rs[j]
        if r is None:
            return float('nan')
        with np.errstate(all='ignore'):
            return float(np.dot(r, r)) + self.hval(self.xs[j])


class Problem(object):
    pass


def build(spec, fault=None):
    """spec (pure JSON data, floats in hex) -> Problem with fresh caller-side objects and solve() keyword arguments"""
    P = Problem()
    P.spec = spec
    P.n = spec['n']
    P.rec = Rec(spec, fault)
    x0 = unhx(spec['x0'])
    P.x0 = x0.astype(int) if spec.get('x0_int') else x0
    P.lo, P.hi = unhx(spec.get('lo')), unhx(spec.get('hi'))
    P.bounds = None if (P.lo is None and P.hi is None) else (P.lo, P.hi)
    P.projections = [_make_projection(p) for p in spec.get('proj') or []]
    P.user_params = dec_params(spec.get('params') or {})
    P.rhobeg, P.rhoend = unhx(spec.get('rhobeg')), unhx(spec['rhoend'])
    kw = dict(bounds=P.bounds, rhoend=P.rhoend, maxfun=spec['maxfun'], user_params=P.user_params,
              objfun_has_noise=bool(spec.get('has_noise')), scaling_within_bounds=bool(spec.get('scaling')),
              do_logging=bool(spec.get('do_logging', False)))
    if P.projections:
        kw['projections'] = P.projections
    if spec.get('npt') is not None:
        kw['npt'] = spec['npt']
    if P.rhobeg is not None:
        kw['rhobeg'] = P.rhobeg
    ns = spec.get('nsamples', 1)
    if ns != 1:
        if isinstance(ns, int):
            kw['nsamples'] = lambda delta, rho, it, nruns: ns
        else:                         # ['byrun', a, b] -> a + b*nruns
            kw['nsamples'] = lambda delta, rho, it, nruns: ns[1] + ns[2] * nruns
    if spec.get('reg') is not None:
        lam = unhx(spec['reg'])
        kw['h'] = lambda x: lam * float(np.sum(np.abs(x)))
        kw['lh'] = lam * math.sqrt(P.n)
        kw['prox_uh'] = lambda x, u: np.sign(x) * np.maximum(np.abs(x) - lam * u, 0.0)
    P.kw = kw
    # effective values the solver will use (documented defaults)
    P.npt_eff = spec['npt'] if spec.get('npt') is not None else P.n + 1
    if P.rhobeg is not None:
        P.rhobeg_eff = P.rhobeg
    else:
        P.rhobeg_eff = 0.1 if (spec.get('scaling') and P.lo is not None and P.hi is not None and not P.projections) \
            else 0.1 * max(float(np.max(np.abs(x0))), 1.0)
    return P


class _QuietStderr(object):
    """LAPACK's xerbla prints ' ** On entry to DLASCL parameter number 4 had an illegal value' (on fd 1 with this
    OpenBLAS build, fd 2 elsewhere) when the solver takes 2-norms of non-finite matrices; silence both descriptors
    for the duration of the solve call only"""
    def __enter__(self):
        self.saved = []
        try:
            sys.stdout.flush()
            sys.stderr.flush()
            nul = os.open(os.devnull, os.O_WRONLY)
            for fd in (1, 2):
                self.saved.append((fd, os.dup(fd)))
                os.dup2(nul, fd)
            os.close(nul)
        except (OSError, ValueError):
            pass

    def __exit__(self, *a):
        for fd, keep in self.saved:
            os.dup2(keep, fd)
            os.close(keep)
        return False


def run_solve(P, npseed=None):
    """call dfols.solve on the problem; returns (soln, exception).  Seeds the global NumPy RNG first so that every
    run is replayable even where the solver draws random directions."""
    np.random.seed(P.spec.get('npseed', 0) if npseed is None else npseed)
    with warnings.catch_warnings(), np.errstate(all='ignore'), _QuietStderr():
        warnings.simplefilter('ignore')
        try:
            return dfols.solve(P.rec, P.x0, **P.kw), None
        except Exception as ex:
            return None, ex


def gen_problem(rng, cfg, zero_resid=None):
    """random small least-squares problem in configuration cfg; returns a spec dict without budgets / params.
    cfg in plain | bounds | scaled | proj | reg (regularised) ; other settings are added by the callers."""
    n = int(rng.integers(2, 4 if cfg in ('proj', 'reg') else 5))     # projections / S-FISTA are slow in pure Python
    kind = str(rng.choice(['lin', 'rosen', 'nl']))
    if zero_resid is None:
        zero_resid = bool(rng.random() < 0.5)
    spec = dict(kind=kind, n=n, cfg=cfg)
    if kind == 'rosen':
        m = 2 * (n - 1)
        xstar = np.ones(n)
        x0 = np.where(np.arange(n) % 2 == 0, -1.2, 1.0) + 0.2 * rng.normal(size=n)
    else:
        m = n + int(rng.integers(0, 4))
        A = rng.normal(size=(m, n))
        xstar = rng.normal(size=n)
        b = A.dot(xstar) + (0.5 * np.sin(A.dot(xstar)) if kind == 'nl' else 0.0)
        if not zero_resid:
            b = b + 0.5 * rng.normal(size=m)
        x0 = xstar + float(rng.choice([0.3, 1.0, 3.0])) * rng.normal(size=n)
        spec['A'], spec['b'] = hx(A), hx(b)
    spec['m'] = m
    spec['zero_resid'] = bool(zero_resid or kind == 'rosen')
    rhobeg = None
    if rng.random() < 0.6:
        rhobeg = float(rng.choice([0.05, 0.1, 0.3, 1.0]))
    if cfg in ('bounds', 'scaled') or (cfg in ('proj', 'reg') and rng.random() < 0.5):
        rb = rhobeg if rhobeg is not None else 0.1 * max(float(np.max(np.abs(x0))), 1.0)
        lo = np.minimum(x0, xstar) - rng.uniform(0.1, 2.0, size=n)
        hi = np.maximum(x0, xstar) + rng.uniform(0.1, 2.0, size=n)
        for j in range(n):                       # make some bounds active at the solution / at x0, x0 sometimes outside
            u = rng.random()
            if u < 0.2:
                hi[j] = xstar[j] - rng.uniform(0.05, 0.5)
            elif u < 0.4:
                lo[j] = xstar[j] + rng.uniform(0.05, 0.5)
            elif u < 0.5:
                lo[j] = x0[j]
            elif u < 0.6:
                hi[j] = x0[j] - 0.01
        if cfg == 'scaled':
            hi = hi + np.array([10.0 ** int(rng.integers(0, 3)) for _ in range(n)])
            rhobeg = None if rng.random() < 0.5 else float(rng.choice([0.05, 0.1, 0.3]))
            spec['scaling'] = True
        else:
            gap = 2.5 * rb
            bad = hi - lo < gap
            hi[bad] = lo[bad] + gap
        spec['lo'], spec['hi'] = hx(lo), hx(hi)
    if cfg == 'proj':
        # feasible set = ball [& halfspace] [& box] with non-empty interior around z (z near, not at, the minimiser)
        z = xstar + 0.3 * rng.normal(size=n)
        c = z + 0.5 * rng.normal(size=n)
        rad = float(np.linalg.norm(z - c) + rng.uniform(0.3, 1.0))
        proj = [['ball', hx(c), hx(rad)]]
        if spec.get('lo') is None and rng.random() < 0.6:      # at most two user sets + box: Dykstra is slow in pure Python
            a = rng.normal(size=n)
            proj.append(['halfspace', hx(a), hx(float(a.dot(z)) + rng.uniform(0.3, 1.0) * float(np.linalg.norm(a)))])
        spec['proj'] = proj
        if spec.get('lo') is not None:
            spec['lo'] = hx(np.minimum(unhx(spec['lo']), z - 0.3))
            spec['hi'] = hx(np.maximum(unhx(spec['hi']), z + 0.3))
    if cfg == 'reg':
        spec['reg'] = hx(float(rng.choice([0.01, 0.1, 0.5])))
    spec['x0'] = hx(x0)
    spec['rhobeg'] = hx(rhobeg)
    spec['rhoend'] = hx(1e-8)
    spec['npseed'] = int(rng.integers(0, 2 ** 31 - 1))
    return spec


def fix_radii(spec):
    """keep the generated input valid: rhoend well below the rhobeg the solver will use"""
    if spec.get('rhobeg') is not None:
        rb = float(unhx(spec['rhobeg']))
    elif spec.get('scaling'):
        rb = 0.1
    else:
        rb = 0.1 * max(float(np.max(np.abs(unhx(spec['x0'])))), 1.0)
    if float(unhx(spec['rhoend'])) > 0.1 * rb:
        spec['rhoend'] = hx(0.01 * rb)
    return spec


def clean_float(v):
    return None if v is None else (float(v) if math.isfinite(float(v)) else repr(float(v)))


def result_summary(soln):
    if soln is None:
        return None
    return dict(flag=int(soln.flag), msg=str(soln.msg), nf=int(soln.nf), nx=int(soln.nx), nruns=int(soln.nruns),
                obj=hx(soln.obj) if soln.obj is not None else None, x=hx(soln.x) if soln.x is not None else None)


def bump(d, key, n=1):
    d[key] = d.get(key, 0) + n


def merge_counts(dst, src):
    for k, v in src.items():
        if isinstance(v, dict):
            merge_counts(dst.setdefault(k, {}), v)
        else:
            dst[k] = dst.get(k, 0) + v
# ============================================================ end of shared core ======================================

RULE = ("Cases: a random small least-squares problem (linear / Rosenbrock / mildly nonlinear, n=2..4) in one of the "
        "configurations default, bounded, scaled (scaling_within_bounds), proj (convex-constrained: ball [+halfspace] "
        "[+box]), regression (n+1 < npt <= (n+1)(n+2)/2, optionally regression.num_extra_steps with geometry steps), "
        "regularised (L1 term), plus deterministic soft / hard restarts and averaging of a deterministic objective; no "
        "option that is documented as random or that draws random directions is enabled (init.random_initial_directions, "
        "growing.* with growing.ndirs_initial < npt-1, restarts.increase_npt, regression.momentum_extra_steps, "
        "init.run_in_parallel).  solve is called three times on fresh but identical caller-side objects: after "
        "np.random.seed(a), after np.random.seed(b) with b != a, and once more immediately afterwards without reseeding.  "
        "The recorded evaluation points (bit patterns), the residuals handed back and every field of the result must "
        "coincide, and x0 / bound arrays / user_params must be bit-identical to copies taken before each call.  A case "
        "is non-trivial when the run left the initialisation phase (nf > npt) - the global generator always differs.")

CFGS = ['default', 'bounded', 'scaled', 'proj', 'regression', 'regularised', 'restarts', 'averaging']


def make_spec(seed, i, j):
    rng = np.random.default_rng((seed, i, j, 19))
    cfg = CFGS[int(rng.integers(0, len(CFGS)))]
    base = {'default': 'plain', 'bounded': 'bounds', 'scaled': 'scaled', 'proj': 'proj', 'regularised': 'reg'}.get(cfg)
    if base is None:
        base = str(rng.choice(['plain', 'bounds']))
    spec = gen_problem(rng, base)
    spec['cfg'] = cfg
    n = spec['n']
    if base == 'proj' and rng.random() < 0.35:
        # start exactly on the boundary of a half-space whose normal has no zero component, with a small radius: the projected
        # +coordinate steps are then linearly dependent and the initialisation has to repair them (deterministically, by sign flips)
        # (dyadic data, so that the dependence is exact: the rank test uses an absolute tolerance of 1e-18)
        x0 = np.round(unhx(spec['x0']) * 4.0) / 4.0
        x0[1] = -x0[0]
        a = np.zeros(n); a[0] = a[1] = 1.0
        spec['x0'] = hx(x0)
        spec['proj'] = [['halfspace', hx(a), hx(0.0)]] if rng.random() < 0.5 else [['ball', hx(x0.copy()), hx(64.0)], ['halfspace', hx(a), hx(0.0)]]
        spec['rhobeg'] = hx(float(rng.choice([2.0 ** -10, 2.0 ** -6])))
        spec['lo'] = spec['hi'] = None
        spec['scaling'] = False
    heavy = base in ('proj', 'reg')
    params = {}
    spec['maxfun'] = int(rng.choice([20, 40, 80])) if not heavy else int(rng.choice([8, 12, 16]))
    spec['rhoend'] = hx(float(rng.choice([1e-8, 1e-5, 1e-3])))
    if base == 'reg':
        params['func_tol.max_iters'] = int(rng.choice([30, 60]))
    if base == 'proj' and rng.random() < 0.5:
        params['dykstra.max_iters'] = 30
    if cfg == 'regression':
        spec['npt'] = n + 1 + int(rng.integers(1, (n + 1) * (n + 2) // 2 - n))
        if rng.random() < 0.5:
            params['regression.num_extra_steps'] = int(rng.integers(1, 3))
    if cfg == 'restarts':
        params['restarts.use_restarts'] = True
        params['restarts.max_unsuccessful_restarts'] = int(rng.integers(1, 4))
        if rng.random() < 0.5:
            params['restarts.use_soft_restarts'] = False
            if rng.random() < 0.5:
                params['restarts.hard.use_old_rk'] = False
        if rng.random() < 0.5:
            params['restarts.rhoend_scale'] = float(rng.choice([0.1, 0.5]))
        spec['rhoend'] = hx(float(rng.choice([1e-3, 1e-2])))
    if cfg == 'averaging':
        spec['nsamples'] = int(rng.integers(2, 4))
        if rng.random() < 0.5:
            spec['has_noise'] = True            # noise defaults (restarts, gamma_dec ...) on a deterministic objective
            params['restarts.max_unsuccessful_restarts'] = int(rng.integers(1, 3))
    if rng.random() < 0.3:
        params['logging.save_diagnostic_info'] = True
        params['logging.save_poisedness'] = bool(rng.random() < 0.5)
    if rng.random() < 0.2:
        # entries set to None are legal and leave the default in place; the dictionary must come back as it was
        params[str(rng.choice(['general.rounding_error_constant', 'tr_radius.eta1', 'slow.thresh_for_slow']))] = None
    if rng.random() < 0.25 and not heavy:
        # a short slow-progress history: state left behind by an earlier call in the same process would change the exit
        params['slow.max_slow_iters'] = int(rng.integers(2, 5))
        params['slow.thresh_for_slow'] = float(rng.choice([0.5, 2.0]))
    if rng.random() < 0.2:
        spec['x0_int'] = True                    # integer x0 array (solve converts with astype)
        spec['x0'] = hx(np.round(unhx(spec['x0'])))
        if spec.get('lo') is not None and not spec.get('scaling'):
            lo, hi, x0 = unhx(spec['lo']), unhx(spec['hi']), unhx(spec['x0'])
            spec['lo'], spec['hi'] = hx(np.minimum(lo, x0 - 0.5)), hx(np.maximum(hi, x0 + 0.5))
    spec['seed_a'] = int(rng.integers(0, 2 ** 31 - 1))
    spec['seed_b'] = int(rng.integers(0, 2 ** 31 - 1))
    if spec['seed_b'] == spec['seed_a']:
        spec['seed_b'] += 1
    spec['params'] = enc_params(params)
    return fix_radii(spec)


def tasks(seed, tier):
    ntasks, per = (96, 4) if tier == 'quick' else (640, 12)
    return [dict(seed=int(seed), i=i, count=per, tier=tier) for i in range(ntasks)]


def _bits(a):
    if a is None:
        return None
    a = np.asarray(a)
    return (str(a.dtype), a.shape, a.tobytes())


def _snapshot(P):
    return dict(x0=_bits(P.x0), lo=_bits(P.lo), hi=_bits(P.hi),
                params=copy.deepcopy(P.user_params), params_types={k: type(v) for k, v in P.user_params.items()})


def _result_key(soln, exc):
    if exc is not None:
        return ('raised', type(exc).__name__, str(exc))
    di = soln.diagnostic_info
    return dict(x=_bits(soln.x), resid=_bits(soln.resid), obj=_bits(soln.obj), jacobian=_bits(soln.jacobian),
                nf=int(soln.nf), nx=int(soln.nx), nruns=int(soln.nruns), flag=int(soln.flag), msg=str(soln.msg),
                xmin_eval_num=_bits(soln.xmin_eval_num), jacmin_eval_nums=_bits(soln.jacmin_eval_nums),
                diag=None if di is None else (tuple(di.columns), len(di), _bits(di['rho'].to_numpy(dtype=float)),
                                              _bits(di['delta'].to_numpy(dtype=float)), _bits(di['fk'].to_numpy(dtype=float))))


def _sign_flips_suffice(P, spec):
    """replays the two deterministic passes of Controller.initialise_coordinate_directions (projected +steps, then -steps for
    the rank-deficient rows) with the tree's own dykstra/qr_rank; True if they reach full rank, False if not, None if unknown"""
    try:
        from dfols.util import dykstra, qr_rank, pbox
        up = P.user_params or {}
        mi, dt, mr = up.get('dykstra.max_iters', 100), up.get('dykstra.d_tol', 1e-10), up.get('matrix_rank.r_tol', 1e-18)
        projs = list(P.projections)
        n = len(P.x0)
        if P.lo is not None or P.hi is not None:
            lo = P.lo if P.lo is not None else -1e20 * np.ones(n)
            hi = P.hi if P.hi is not None else 1e20 * np.ones(n)
            projs.append(lambda w: pbox(w, lo, hi))
        xb = dykstra(projs, np.array(P.x0, dtype=float), max_iter=mi, tol=dt)
        step = min(1, P.rhobeg_eff)
        D = np.zeros((n, n))
        for k in range(n):
            ek = np.zeros(n); ek[k] = 1
            D[k, :] = dykstra(projs, xb + np.dot(ek, step), max_iter=mi, tol=dt) - xb
        rank, diag = qr_rank(D, tol=mr)
        k = 0
        while rank != n and k < n:
            if diag[k] < mr:
                ek = np.zeros(n); ek[k] = 1
                dk = D[k, :].copy()
                D[k, :] = dykstra(projs, xb - np.dot(ek, step), max_iter=mi, tol=dt) - xb
                rank2, _ = qr_rank(D, tol=mr)
                if rank2 <= rank:
                    D[k, :] = dk
                rank = rank2
            k += 1
        rank, _ = qr_rank(D, tol=mr)
        return bool(rank == n)
    except Exception:
        return None


def check_case(spec):
    V = []
    info = dict(exit=None, nontrivial=False, cfg=spec['cfg'], rng_consumed=False)

    def viol(sig, what, **extra):
        d = dict(spec=spec, expect=sig)
        d.update(extra)
        V.append(dict(signature=sig, what=what, data=d))

    runs = []
    for label, seed_np in (('seed_a', spec['seed_a']), ('seed_b', spec['seed_b']), ('again', None)):
        P = build(spec)
        before = _snapshot(P)
        if seed_np is not None:
            np.random.seed(seed_np)
        st0 = np.random.get_state()
        with warnings.catch_warnings(), np.errstate(all='ignore'), _QuietStderr():
            warnings.simplefilter('ignore')
            try:
                soln, exc = dfols.solve(P.rec, P.x0, **P.kw), None
            except Exception as ex:
                soln, exc = None, ex
        st1 = np.random.get_state()
        consumed = not (st0[2] == st1[2] and np.array_equal(st0[1], st1[1]))
        info['rng_consumed'] = info['rng_consumed'] or consumed
        after = _snapshot(P)
        # caller data untouched
        if after['x0'] != before['x0']:
            viol('C19:x0_modified', 'run %s: the caller\'s x0 array was modified by solve' % label, run=label)
        if after['lo'] != before['lo'] or after['hi'] != before['hi']:
            viol('C19:bounds_modified', 'run %s: the caller\'s bound arrays were modified by solve' % label, run=label)
        if after['params'] != before['params'] or after['params_types'] != before['params_types'] \
                or list(after['params']) != list(before['params']):
            viol('C19:user_params_modified', 'run %s: the caller\'s user_params dict was modified by solve: %r -> %r'
                 % (label, before['params'], after['params']), run=label)
        if soln is not None and soln.flag == soln.EXIT_INPUT_ERROR:
            raise RuntimeError('oracle C19 generated an invalid input: %s / %r' % (soln.msg, spec))
        runs.append(dict(label=label, xs=[x.tobytes() for x in P.rec.xs], rs=[r.tobytes() for r in P.rec.rs],
                         res=_result_key(soln, exc), soln=soln, exc=exc, consumed=consumed, rec=P.rec))
    ref = runs[0]
    info['exit'] = ('raised %s' % type(ref['exc']).__name__) if ref['exc'] is not None else '%d %s' % (ref['soln'].flag, ref['soln'].msg)
    npt = spec.get('npt') or spec['n'] + 1
    ns = spec.get('nsamples', 1)
    info['nontrivial'] = len(ref['xs']) > npt * ns
    for other in runs[1:]:
        how = 'np.random.seed(%d) vs np.random.seed(%d)' % (spec['seed_a'], spec['seed_b']) if other['label'] == 'seed_b' \
            else 'first call vs third call in the same process'
        if other['xs'] != ref['xs']:
            first = next((t for t, (a, b) in enumerate(zip(ref['xs'], other['xs'])) if a != b), min(len(ref['xs']), len(other['xs'])))
            in_init = first < npt * ns
            if spec.get('proj') and in_init:
                sig = 'C19:rng_in_projection_init'
                # the known finding (F35) is the case in which flipping the sign of the deficient coordinate steps does not
                # restore full rank, so that the routine has to draw random directions; when the deterministic passes
                # suffice the generator must not influence the points
                if _sign_flips_suffice(build(spec), spec) is True:
                    sig = 'C19:rng_in_projection_init:repairable_without_rng'
            else:
                sig = 'C19:sequence_differs:' + ('global_rng' if other['label'] == 'seed_b' else 'repeated_call')
            xa = ref['rec'].xs[first] if first < len(ref['xs']) else None
            xb = other['rec'].xs[first] if first < len(other['xs']) else None
            viol(sig, '%s: evaluation sequences differ from call %d on (%d vs %d calls; x = %s vs %s); the solver %s the '
                 'global generator' % (how, first + 1, len(ref['xs']), len(other['xs']), xa, xb,
                                       'drew from' if other['consumed'] else 'did not draw from'),
                 run=other['label'], first_call=first + 1)
        elif other['rs'] != ref['rs']:
            raise RuntimeError('oracle C19: objective wrapper is not deterministic for %r' % (spec,))
        elif other['res'] != ref['res']:
            fields = [k for k in ref['res'] if ref['res'][k] != other['res'][k]] if isinstance(ref['res'], dict) and \
                isinstance(other['res'], dict) else ['exception']
            viol('C19:result_differs:' + ('global_rng' if other['label'] == 'seed_b' else 'repeated_call'),
                 '%s: identical evaluation sequences but different results in fields %s' % (how, fields),
                 run=other['label'], fields=fields)
    return V, info


def run_task(task):
    seed, i = task['seed'], task['i']
    stats = {'exit': {}, 'cfg': {}, 'rng_consumed_by_solver': {}}
    violations, evaluations, nontrivial, sample = [], 0, 0, None
    for j in range(task['count']):
        spec = make_spec(seed, i, j)
        V, info = check_case(spec)
        evaluations += 1
        nontrivial += 1 if info['nontrivial'] else 0
        bump(stats['exit'], info['exit'])
        bump(stats['cfg'], info['cfg'])
        if info['rng_consumed']:
            bump(stats['rng_consumed_by_solver'], info['cfg'])
        violations.extend(V)
        if sample is None and info['nontrivial']:
            sample = dict(cfg=info['cfg'], kind=spec['kind'], n=spec['n'], npt=spec.get('npt'), maxfun=spec['maxfun'],
                          params=spec['params'], seeds=[spec['seed_a'], spec['seed_b']], exit=info['exit'])
    return dict(evaluations=evaluations, nontrivial=nontrivial, violations=violations[:40], stats=stats, sample=sample)


def replay(data):
    V, info = check_case(data['spec'])
    if not V:
        return None
    for v in V:
        if v['signature'] == data.get('expect'):
            return v
    return V[0]
