"""C04 -- the best point ever evaluated is never lost.
Deterministic objective, one sample per point: soln.obj <= sum(r^2) + h(x) at every recorded evaluation (relative tolerance
1e-12), in particular at the first evaluated point (x0 after projection into the feasible set)."""
import numpy as np
from .. import solverun as S

RTOL = 1e-12

RULE = ("random deterministic problems from harness/solverun.gen_problem(profile='determ'): no noise, no nsamples callback; smooth "
        "and nonsmooth (|.|, max) residual families, bounds of all kinds, scaling, ball/box projections (about 1 run in 4, the route "
        "to trust-region-increase exits), L1 regulariser, regression/growing, soft and hard restarts, slow-progress settings, "
        "model.abs_tol up to 1, ~1/3 of the budgets at or below the initialisation cost. Objective values are recomputed from the "
        "recorded (x, r) pairs; evaluations whose recomputed value is not finite are ignored (C08). "
        "A run is non-trivial when it returned a result after >= npt+2 evaluations and the smallest recorded objective value is "
        "strictly below the value at the first point (so there was something to lose).")

TASK_TIMEOUT = 120


def tasks(seed, tier):
    return S.make_tasks('C04', seed, tier, 'determ', runs=20)     # projection-heavy runs cost more CPU: fewer per task


def judge(rec):
    prob = rec['problem']
    calls = rec['calls']
    npt = int(prob['kwargs']['npt'])
    s = rec['soln']
    V, marks = [], []
    if s is None:
        marks.append('no_result_timeup' if rec['timeup'] else 'no_result_exception')
        return dict(violations=V, nontrivial=False, marks=marks)
    if s.x is None or not calls:
        marks.append('input_error')
        return dict(violations=V, nontrivial=False, marks=marks)
    if prob.get('noise') is not None or prob.get('nsamples') is not None:
        marks.append('not_deterministic_skipped')
        return dict(violations=V, nontrivial=False, marks=marks)
    route = S.exit_route(s)
    f = np.array([S.objective_of(rec, r, x) for (x, r) in calls])
    obj = float(s.obj)
    fin = np.isfinite(f)
    if np.isnan(obj):
        if np.any(fin):
            V.append(dict(signature='C04:obj_nan:%s' % route, what='soln.obj is NaN although %d evaluations had finite objective values; exit: %s' % (int(np.sum(fin)), route),
                          detail=dict(route=route)))
    else:
        worse = np.where(fin & ~(obj <= f + RTOL * np.abs(f)))[0]
        if len(worse):
            ibest = int(np.argmin(np.where(fin, f, np.inf)))
            where = 'last_eval' if ibest == len(calls) - 1 else ('first_eval' if ibest == 0 else 'interior_eval')
            # With projections AND a regulariser the stored objective uses h at the point before Dykstra's re-projection (known
            # finding F34/F21): when the best evaluated point IS the returned one and only soln.obj differs slightly, this is
            # that defect, not a lost point.
            reproj = bool(prob.get('proj')) and prob.get('reg') is not None and int(s.xmin_eval_num) == ibest + 1 and \
                abs(obj - float(f[ibest])) <= 1e-6 * (1.0 + abs(float(f[ibest]))) and len(worse) == 1
            # the same defect can also hide a marginally better point: the model ranks points by objective values that use h
            # before the re-projection, which differ from the evaluated ones by up to ~1e-5 relative (observed 2.6e-6 with
            # dykstra.max_iters=10), so a point better by less than that may not be recognised
            lost_by_reproj = bool(prob.get('proj')) and prob.get('reg') is not None and not reproj and \
                abs(obj - float(f[ibest])) <= 1e-5 * (1.0 + abs(float(f[ibest])))
            V.append(dict(signature=('C04:returned_best_point_obj_differs:regulariser_projections' if reproj else
                                     'C04:better_point_lost:regulariser_projections' if lost_by_reproj else 'C04:better_point_lost:%s' % route),
                          what='soln.obj = %r exceeds the objective at %d recorded evaluation(s); best recorded value %r at evaluation %d of %d (%s); '
                               'exit: %s, nruns %s, soln.xmin_eval_num %s' % (obj, len(worse), float(f[ibest]), ibest + 1, len(calls), where, route, s.nruns, s.xmin_eval_num),
                          detail=dict(obj=S.fh(obj), best=S.fh(float(f[ibest])), best_eval=ibest + 1, ncalls=len(calls), where=where, route=route,
                                      best_x=S.vh(calls[ibest][0]))))
            if 0 in worse:
                V.append(dict(signature='C04:obj_above_first_eval:%s' % route,
                              what='soln.obj = %r exceeds the objective %r at the first evaluated point (projected x0); exit: %s' % (obj, float(f[0]), route),
                              detail=dict(obj=S.fh(obj), f0=S.fh(float(f[0])), route=route)))
    nr = S.count_restarts(rec)
    if nr:
        marks.append('restarted_' + prob.get('tags', {}).get('restarts', '?'))
    if len(calls) <= npt and route == 'maxfun':
        marks.append('budget_within_initialisation')
    ff = np.where(fin, f, np.inf)
    ibest = int(np.argmin(ff))
    if ibest == len(calls) - 1 and len(calls) > 1:
        marks.append('best_point_is_last_evaluation')
    if prob.get('proj'):
        marks.append('projections')
    progressed = bool(np.min(ff) < ff[0])
    nontrivial = len(calls) >= npt + 2 and progressed
    return dict(violations=V, nontrivial=nontrivial, marks=marks)


def run_task(task):
    return S.run_generic(task, judge, capture_log=False)


def replay(data):
    return S.replay_generic(data, judge, capture_log=False)
