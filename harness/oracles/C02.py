"""C02 -- evaluation budget and evaluation counters are exact.
Observations: the recording wrapper (every call), the nsamples callback (every request, interleaved with the calls) and the
log records 'Function eval %i at point %i ...' that dfols.util emits at INFO level on logger 'dfols.util'."""
import numpy as np
from .. import solverun as S

RULE = ("random problems from harness/solverun.gen_problem(profile='budget'): as for C01 plus unconstrained and (few) projection "
        "problems; maxfun 1..120 with ~1/3 of the budgets at or below the initialisation cost (npt * samples), nsamples callbacks "
        "returning 1..4 (constant, by iteration, by rho, by run number), noisy and deterministic objectives, soft and hard restarts "
        "with/without restarts.increase_npt and restarts.hard.use_old_rk. The number of samples a point should get is the value "
        "returned by the most recent nsamples call before the point's first evaluation (1 when no callback). "
        "A run is non-trivial when it made >= npt+2 evaluations AND (some point received > 1 sample OR the solver reported >= 1 "
        "restart OR the budget was exhausted, nf == maxfun).")

TASK_TIMEOUT = 120


def tasks(seed, tier):
    return S.make_tasks('C02', seed, tier, 'budget')


def judge(rec):
    prob = rec['problem']
    calls, log, events = rec['calls'], rec['log'], rec['events']
    maxfun = int(prob['kwargs']['maxfun'])
    npt = int(prob['kwargs']['npt'])
    s = rec['soln']
    V, marks = [], []

    def add(sig, what, **detail):
        V.append(dict(signature=sig, what=what, detail=detail))

    ncalls = len(calls)
    if ncalls > maxfun:
        add('C02:calls_exceed_maxfun', 'objective called %d times, maxfun = %d' % (ncalls, maxfun), calls=ncalls, maxfun=maxfun)
    have_soln = s is not None and not (getattr(s, 'flag', None) == getattr(s, 'EXIT_INPUT_ERROR', -1) and s.x is None)
    if s is not None and not have_soln:
        marks.append('input_error')
        if ncalls != 0 or s.nf != 0:
            add('C02:nf_mismatch:input_error', 'input error result but %d calls were made, soln.nf = %r' % (ncalls, s.nf), calls=ncalls)
    if have_soln and int(s.nf) != ncalls:
        add('C02:nf_mismatch', 'soln.nf = %r but the objective was called %d times' % (s.nf, ncalls), calls=ncalls, nf=int(s.nf))

    # ---- numbering as reported in the log
    log_ok = True
    if not rec['timeup'] and len(log) != ncalls:
        # (on a time-up abort the last call raised before its log line; otherwise one line per call)
        log_ok = False
        add('C02:log_count_mismatch', 'log has %d "Function eval" lines for %d calls' % (len(log), ncalls), calls=ncalls, lines=len(log))
    for i, (ev, pt) in enumerate(log):
        if ev != i + 1:
            log_ok = False
            add('C02:eval_numbering', 'log line %d carries evaluation number %d (expected %d)' % (i + 1, ev, i + 1), line=i + 1, got=ev)
            break
    prev = 0
    for i, (ev, pt) in enumerate(log):
        if pt == prev or pt == prev + 1:
            prev = pt
            continue
        log_ok = False
        kind = 'start' if i == 0 else ('gap' if pt > prev + 1 else 'decrease')
        add('C02:point_numbering:%s' % kind, 'evaluation %d is at point number %d after point number %d' % (i + 1, pt, prev),
            line=i + 1, got=pt, prev=prev)
        break

    # ---- per-point clauses
    multi = False
    if log_ok:
        pts, _ = S.points_from_log(rec)
        # requested number of samples of each point: most recent nsamples() return value before the point's first call
        req_at_call = {}
        last = None
        for e in events:
            if e[0] == 'ns':
                last = max(int(e[1]), 1)
            else:
                req_at_call[e[1] - 1] = last
        has_cb = prob.get('nsamples') is not None
        for k, p in enumerate(pts):
            idx = p['idx']
            x_first = calls[idx[0]][0]
            for i in idx[1:]:
                if not np.array_equal(calls[i][0], x_first):
                    add('C02:point_x_differs', 'calls %d and %d share point number %d but received different x' % (idx[0] + 1, i + 1, p['pt']),
                        point=p['pt'], call_a=idx[0] + 1, call_b=i + 1, xa=S.vh(x_first), xb=S.vh(calls[i][0]))
                    break
            want = req_at_call.get(idx[0]) if has_cb else 1
            if want is None:
                add('C02:sample_count:no_request', 'point %d was evaluated before any nsamples() request' % p['pt'], point=p['pt'])
                continue
            got = len(idx)
            if got > 1:
                multi = True
            if got > want:
                add('C02:sample_count:too_many', 'point %d got %d samples, nsamples asked for %d' % (p['pt'], got, want),
                    point=p['pt'], got=got, want=want)
            elif got < want:
                budget_out = (k == len(pts) - 1) and ncalls >= maxfun
                if rec['timeup'] and k == len(pts) - 1:
                    budget_out = True
                if not budget_out:
                    add('C02:sample_count:too_few', 'point %d got %d samples, nsamples asked for %d, and the budget was not exhausted '
                        '(%d calls, maxfun %d, point %d of %d)' % (p['pt'], got, want, ncalls, maxfun, k + 1, len(pts)),
                        point=p['pt'], got=got, want=want, calls=ncalls, maxfun=maxfun)
                else:
                    marks.append('last_point_cut_by_budget')
        if have_soln:
            last_pt = pts[-1]['pt'] if pts else 0
            if int(s.nx) != last_pt:
                add('C02:nx_mismatch', 'soln.nx = %r but the last point number in the log is %d' % (s.nx, last_pt), nx=int(s.nx), last=last_pt)
    if have_soln and prob.get('nsamples') is None and int(s.nx) != int(s.nf):
        add('C02:nx_ne_nf_without_averaging', 'no averaging but soln.nx = %r != soln.nf = %r' % (s.nx, s.nf), nx=int(s.nx), nf=int(s.nf))

    if multi:
        marks.append('some_point_with_several_samples')
    if ncalls >= maxfun:
        marks.append('budget_exhausted')
    if maxfun < npt:
        marks.append('maxfun_below_init_cost')
    if rec['exc'] and not rec['timeup']:
        marks.append('solver_exception')
    nr = S.count_restarts(rec)
    if nr:
        marks.append('restarted')
    nontrivial = ncalls >= npt + 2 and (multi or nr > 0 or ncalls >= maxfun)
    return dict(violations=V, nontrivial=nontrivial, marks=marks)


def run_task(task):
    return S.run_generic(task, judge, capture_log=True)


def replay(data):
    return S.replay_generic(data, judge, capture_log=True)
