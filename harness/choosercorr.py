"""Correspondence of the regenerated selection loop of Controller.choose_point_to_replace (translator: gen.derive_chooser ->
py_controller_choose_point_loop) with the calls made by real dfols.solve() runs.

Recorded per call (monkey-patched method, no source hook): the Model state, delta, the step d, skip_kopt, what
lagrange_gradient(k=None) returned inside the call (cs, gs: LAPACK, an oracle for the model) and the slot the implementation
chose.  Coq evaluates the regenerated loop on Flocq binary64 on the same data and the slots are compared.

BLAS dot products are replaced by sequential sums during the runs (as in the other correspondences).  The loop squares two
scalars with `**`, i.e. with libm's pow, which can differ from the model's x*x in the last bit; a different slot is therefore
only a mismatch if the two best scores are further apart than 1e-12 relative (counted and reported otherwise)."""
import warnings
import numpy as np
from . import common as C, modelio as IO, histcorr

CH_V = r"""
From Coq Require Import ZArith List Bool String.
Require Import DV.Base.Prelude DV.Base.F64 DV.Spec.Schema DV.Lib.Corr.
From G Require Import Gen_util Gen_model Gen_controller.
Import ListNotations.
Open Scope Z_scope.
Definition ch_case (M : @model_state ArithF64) (delta : F) (d : list F) (skip : bool) (cs : list F) (gs : list (list F)) : Z :=
  let st := @mk_controller ArithF64 M 0 0 1 (of_bits 0) delta (of_bits 0) (of_bits 0) None None 0 in
  match py_controller_choose_point_loop st d skip cs gs with Ok (_, Some k) => k | Ok (_, None) => -1 | Err _ => -2 end.
"""


def scores(M, delta, d, skip, cs, gs):
    """the loop's scores, recomputed for the tie test only (never used as the expected answer)"""
    out = []
    xo = M.xopt()
    for k in range(M.npt()):
        if skip and k == M.kopt:
            out.append(-np.inf)
            continue
        den = cs[k] + IO.seq_dot(gs[:, k], d)
        q = IO.seq_sumsq(M.xpt(k) - xo) / (delta * delta)
        out.append(max(1.0, q * q) * abs(den))
    return out


def task(args):
    seed, count = args
    import dfols.controller as dc
    import dfols.model as dm
    import dfols.util as du
    rng = np.random.default_rng(seed)
    out = []
    orig = dc.Controller.choose_point_to_replace

    def chooser(self, d, skip_kopt=True):
        got = {}
        lg = self.model.lagrange_gradient

        def spy(*a, **k):
            r = lg(*a, **k)
            got['r'] = r
            return r
        self.model.lagrange_gradient = spy
        try:
            knew, exit_info = orig(self, d, skip_kopt)
        finally:
            del self.model.lagrange_gradient
        if 'r' in got and exit_info is None and len(out) < 400 and not self.model.projections:
            cs, gs = got['r']
            cs, gs = np.array(cs, dtype=float), np.array(gs, dtype=float)
            sc = scores(self.model, float(self.delta), np.asarray(d, dtype=float), bool(skip_kopt), cs, gs)
            fin = sorted((s for s in sc if np.isfinite(s)), reverse=True)
            tie = len(fin) >= 2 and (fin[0] - fin[1]) <= 1e-12 * abs(fin[0])
            out.append((IO.model_lit(self.model), IO.flit(float(self.delta)), IO.vlit(d), 'true' if skip_kopt else 'false', IO.vlit(cs), IO.mlit(gs),
                        -1 if knew is None else int(knew), bool(tie), bool(skip_kopt), int(self.model.npt()), int(self.model.kopt)))
        return knew, exit_info
    saved = (dc.sumsq, dc.np, dm.sumsq, dm.np, du.np)
    dc.Controller.choose_point_to_replace = chooser
    dc.sumsq = dm.sumsq = IO.seq_sumsq
    dc.np = dm.np = du.np = IO.NpProxy()
    try:
        for _ in range(count):
            spec = histcorr.gen_run(rng)
            spec['lam'] = 0.0
            spec['maxfun'] = int(rng.choice([25, 40, 60]))
            with warnings.catch_warnings(), np.errstate(all='ignore'):
                warnings.simplefilter('ignore')
                try:
                    histcorr.run_plain(spec)
                except Exception:
                    pass
    finally:
        dc.Controller.choose_point_to_replace = orig
        dc.sumsq, dc.np, dm.sumsq, dm.np, du.np = saved
    return out


def correspondence(ctx, nruns):
    per = max(1, nruns // 16)
    res = C.parallel(task, [(ctx.seed * 71 + i + 3, per) for i in range(16)], timeout_each=900)
    cases = []
    for t, st, r in res:
        if st != 'ok':
            ctx.oblige('correspondence:chooser', False, 'implementation side failed: %s %s' % (st, r))
            return
        cases += r[:max(20, ctx.scale(60, 400))]
    body = CH_V + 'Definition exp_ : list Z := [' + '; '.join(C.zlit(c[6]) for c in cases) + '].\n'
    body += 'Definition got_ : list Z := [' + ';\n'.join('ch_case %s %s %s %s %s %s' % c[:6] for c in cases) + '].\n'
    body += 'Eval vm_compute in map (fun p => if Z.eqb (fst p) (snd p) then 1 else 0) (combine got_ exp_).\n'
    ok, out = C.coq_eval(ctx, 'cases_chooser', body, '', timeout=900)
    if not ok:
        ctx.oblige('correspondence:chooser', False, C.first_error(out))
        return
    ls = C.parse_eval_lists(out)
    flags = ls[0] if ls else []
    bad = [i for i, f in enumerate(flags) if f != 1 and not cases[i][7]]
    ties = [i for i, f in enumerate(flags) if f != 1 and cases[i][7]]
    ctx.cov['chooser_calls_compared'] = len(flags)
    ctx.cov['chooser_calls_with_skip_kopt_false'] = sum(1 for c in cases if not c[8])
    ctx.cov['chooser_calls_differing_only_within_a_rounding_tie'] = len(ties)
    if len(flags) != len(cases) or not cases:
        ctx.oblige('correspondence:chooser', False, 'evaluated %d of %d recorded calls' % (len(flags), len(cases)))
    elif bad:
        c = cases[bad[0]]
        ctx.oblige('correspondence:chooser[%d]' % bad[0], False, 'regenerated selection loop and choose_point_to_replace choose different slots on %d of %d recorded calls, first: implementation %d (npt %d, kopt %d, skip_kopt %s)' % (
            len(bad), len(cases), c[6], c[9], c[10], c[8]))
    else:
        ctx.oblige('correspondence:choose_point_to_replace(%d calls of real solve() runs, chosen slot)' % len(cases), True)
