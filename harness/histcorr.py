"""History-level correspondence: real dfols.solve() runs are recorded at the boundary of dfols.model.Model (state right
after construction, then every call of the modelled methods with its arguments and the state hash after it), and the
regenerated Gallina methods are run over the same operation list inside Coq (binary64, bit for bit).  Two things are
compared per history: (1) the state hashes after every operation and the final-results record; (2) the decidable
version of MBook.admissible -- the hypothesis of C04's model theorem -- which must hold at every recorded step of a
deterministic run without averaging.  Fields the modelled operations do not write (model_const, model_jac,
model_jac_eval_nums, factorisation_current: interpolation and LAPACK) are synchronised from the recording by explicit
XSync steps; a state difference in any other field is a mismatch."""
import os, sys, warnings
import numpy as np
from . import common as C
from . import modelio as IO

HIST_V = r'''
From Coq Require Import ZArith List Bool String.
Require Import DV.Base.Prelude DV.Base.F64 DV.Base.OrdLaws DV.Spec.Schema DV.Lib.MSpec DV.Lib.MBook DV.Lib.Corr.
From G Require Import Gen_util Gen_model.
From P Require Import Char_model C17.
Import ListNotations.
Open Scope Z_scope.
Notation st64 := (@model_state ArithF64).
Inductive xop :=
| XO (o : @op ArithF64)
| XSync (c : list F) (j : list (list F)) (e : option (list Z)) (f : bool).
Definition xstep (st : st64) (x : xop) : res st64 :=
  match x with
  | XO o => gstep st o
  | XSync c j e f => Ok (set_factorisation_current (set_model_jac_eval_nums (set_model_jac (set_model_const st c) j) e) f)
  end.
Definition final_hash (st : st64) : Z :=
  match py_model_get_final_results st with
  | Ok (_, (x, r, o, j, ns, en, je)) => hashZ (fl_opt fl_vec x ++ fl_opt fl_vec r ++ fl_opt (fun v => [to_bits v]) o ++ fl_opt (fun z => [z]) ns ++ fl_opt (fun z => [z]) en)
  | Err e => err_code e end.
(* decidable admissibility (MBook.admissible) of one step *)
Definition inc_saved_b (st : st64) : bool :=
  match objsave st with
  | Some s => if @isnan ArithF64 (objv st (kopt st)) then true else negb (@isnan ArithF64 s) && @le ArithF64 s (objv st (kopt st))
  | None => false end.
Definition adm_b (st : st64) (x : xop) : bool :=
  match x with
  | XO (OChange k xx r en) =>
      let w := obj_of st r (vmap2 (@add ArithF64) (xbase st) xx) in
      negb (k =? kopt st) || (inc_saved_b st && negb (@isnan ArithF64 w)) || (negb (@isnan ArithF64 w) && @le ArithF64 w (objv st (kopt st)))
  | XO (OSample _ _) => false
  | _ => true end.
(* the same up to rounding: save_point recomputes the objective of the incumbent from its residuals and absolute
   coordinates, which can differ from the stored value in the last bits; 1e-12 relative is granted here and reported *)
Definition tol12 : F := of_bits 4427486594234968593.
Definition inc_saved_approx_b (st : st64) : bool :=
  match objsave st with
  | Some s => let v := objv st (kopt st) in
              negb (@isnan ArithF64 s) && @le ArithF64 s (@add ArithF64 v (@mul ArithF64 (@fabs ArithF64 v) tol12))
  | None => false end.
Definition adm_approx_b (st : st64) (x : xop) : bool :=
  adm_b st x || match x with
  | XO (OChange k xx r en) => inc_saved_approx_b st && negb (@isnan ArithF64 (obj_of st r (vmap2 (@add ArithF64) (xbase st) xx)))
  | _ => false end.
Fixpoint xtrace (ops : list xop) (st : st64) : list Z :=
  match ops with
  | [] => [final_hash st]
  | o :: r => match xstep st o with Ok st' => st_hash st' :: xtrace r st' | Err e => [err_code e] end
  end.
Fixpoint first_bad (f : st64 -> xop -> bool) (ops : list xop) (st : st64) (i : Z) : Z :=
  match ops with
  | [] => -1
  | o :: r => if f st o then (match xstep st o with Ok st' => first_bad f r st' (i + 1) | Err _ => -1 end) else i
  end.
Definition first_inadmissible := first_bad adm_approx_b.
Definition first_inexact := first_bad adm_b.
Fixpoint first_diff (a b : list Z) (i : Z) : Z :=
  match a, b with [], [] => -1 | x :: a', y :: b' => if x =? y then first_diff a' b' (i + 1) else i | _, _ => i end.
Definition OC k x r e := XO (@OChange ArithF64 k x r e). Definition OW a b := XO (@OSwap ArithF64 a b).
Definition OS k r := XO (@OSample ArithF64 k r). Definition OA x r e := XO (@OAdd ArithF64 x r e).
Definition OH s := XO (@OShift ArithF64 s). Definition OV x r n e a := XO (@OSave ArithF64 x r n e a).
(* the boolean is sound for the Prop the theorem assumes *)
Lemma adm_b_sound st o : adm_b st (XO o) = true -> @admissible ArithF64 st o.
Proof.
  destruct o as [k x r en|k1 k2|k r|x r en|s|x r ns en ab]; cbn [adm_b admissible]; try (intros; exact I); try discriminate.
  intros H. apply orb_true_iff in H as [H|H]; [apply orb_true_iff in H as [H|H]|].
  - left. apply negb_true_iff in H. apply Z.eqb_neq in H. exact H.
  - right. left. apply andb_true_iff in H as [Hs Hn]. apply negb_true_iff in Hn. split; [|exact Hn].
    unfold inc_saved_b in Hs. unfold inc_saved. destruct (objsave st) as [s|]; [|discriminate]. exists s. split; [reflexivity|].
    intros Hk. rewrite Hk in Hs. apply andb_true_iff in Hs as [Ha Hb]. apply negb_true_iff in Ha. split; assumption.
  - right. right. apply andb_true_iff in H as [Hn Hl]. apply negb_true_iff in Hn. split; assumption.
Qed.
'''


class _Hist(object):
    def __init__(self, M, hlit):
        self.lit = IO.model_lit(M, hlit=hlit)
        self.ops, self.hashes, self.kinds = [], [], []
        self.sync = _sync_state(M)
        self.broken = None
        self.M = M


def _sync_state(M):
    return (np.array(M.model_const, dtype=float, copy=True), np.array(M.model_jac, dtype=float, copy=True),
            None if M.model_jac_eval_nums is None else [int(v) for v in M.model_jac_eval_nums], bool(M.factorisation_current))


def _same_sync(a, b):
    return (a[0].shape == b[0].shape and a[1].shape == b[1].shape and np.array_equal(a[0].view(np.int64), b[0].view(np.int64))
            and np.array_equal(a[1].view(np.int64), b[1].view(np.int64)) and a[2] == b[2] and a[3] == b[3])


class Recorder(object):
    """patches dfols.model.Model for the duration of a solve; .histories lists one _Hist per Model instance"""
    METHODS = ('change_point', 'swap_points', 'add_new_sample', 'add_new_point', 'shift_base', 'save_point')

    def __init__(self, hlit='None'):
        self.hlit = hlit
        self.histories = []
        self.depth = 0

    def __enter__(self):
        import dfols.model as dm
        self.dm = dm
        self.saved = dict((m, getattr(dm.Model, m)) for m in self.METHODS + ('__init__',))
        self.saved_kernels = (dm.sumsq, dm.np)
        dm.sumsq, dm.np = IO.seq_sumsq, IO.NpProxy()
        rec = self

        def init(M, *a, **k):
            rec.saved['__init__'](M, *a, **k)
            if getattr(M, 'projections', None):
                M._hist = None            # projections are outside the modelled operations
                return
            M._hist = _Hist(M, rec.hlit)
            rec.histories.append(M._hist)
        dm.Model.__init__ = init
        for name in self.METHODS:
            setattr(dm.Model, name, self._wrap(name))
        return self

    def _wrap(self, name):
        rec, orig = self, self.saved[name]

        def w(M, *a, **k):
            H = getattr(M, '_hist', None)
            if H is None or rec.depth > 0 or H.broken:
                return orig(M, *a, **k)
            cur = _sync_state(M)
            if not _same_sync(cur, H.sync):
                H.ops.append('XSync %s %s %s %s' % (IO.vlit(cur[0]), IO.mlit(cur[1]), IO.olit(cur[2], IO.zvlit), 'true' if cur[3] else 'false'))
                H.hashes.append(IO.st_hash(M)); H.kinds.append('sync')
            try:
                lit = _op_lit(name, a, k)
            except Exception as ex:          # an argument shape the op vocabulary does not cover
                H.broken = 'unrecordable call %s: %s' % (name, ex)
                return orig(M, *a, **k)
            rec.depth += 1
            try:
                r = orig(M, *a, **k)
            except AssertionError:
                H.ops.append(lit); H.hashes.append(-101); H.kinds.append(name); H.broken = 'assertion'
                raise
            finally:
                rec.depth -= 1
            H.ops.append(lit); H.hashes.append(IO.st_hash(M)); H.kinds.append(name)
            H.sync = _sync_state(M)
            return r
        return w

    def finish(self, M=None):
        pass

    def __exit__(self, *exc):
        dm = self.dm
        from .props import C17
        for H in self.histories:
            if not H.broken:
                try:
                    H.hashes.append(C17.final_hash(H.M))
                except Exception as ex:
                    H.broken = 'final results: %s' % ex
            H.M = None
        for m, f in self.saved.items():
            setattr(dm.Model, m, f)
        dm.sumsq, dm.np = self.saved_kernels
        return False


def _op_lit(name, a, k):
    z, v = C.zlit, IO.vlit
    if name == 'change_point':
        kk, x, r, en = a[0], a[1], a[2], a[3]
        if len(a) > 4 or k:
            raise ValueError('allow_kopt_update given')
        return 'OC %s %s %s %s' % (z(int(kk)), v(x), v(r), z(int(en)))
    if name == 'swap_points':
        return 'OW %s %s' % (z(int(a[0])), z(int(a[1])))
    if name == 'add_new_sample':
        r = a[1] if len(a) > 1 else k['rvec_extra']
        return 'OS %s %s' % (z(int(a[0])), v(r))
    if name == 'add_new_point':
        return 'OA %s %s %s' % (v(a[0]), v(a[1]), z(int(a[2])))
    if name == 'shift_base':
        return 'OH %s' % v(a[0])
    if name == 'save_point':
        ab = k.get('x_in_abs_coords', a[4] if len(a) > 4 else True)
        return 'OV %s %s %s %s %s' % (v(a[0]), v(a[1]), z(int(a[2])), z(int(a[3])), 'true' if ab else 'false')
    raise ValueError(name)


# ------------------------------------------------------------------------------------------------ problems
def gen_run(rng):
    """a small deterministic problem and option set whose Model history is to be replayed"""
    n = int(rng.integers(1, 4)); m = n + int(rng.integers(0, 3))
    kind = str(rng.choice(['lin', 'nl', 'rosen'])) if n >= 2 else 'lin'
    if kind == 'rosen':
        m = 2 * (n - 1)
    A = rng.standard_normal((m, n)); b = rng.standard_normal(m)
    x0 = rng.standard_normal(n)
    spec = dict(n=n, m=m, A=A, b=b, kind=kind, x0=x0, lam=float(rng.choice([0.0, 0.0, 0.0, 0.3])),
                maxfun=int(rng.choice([12, 20, 30])), up={}, bounds=None, scaling=False, npt=None,
                seed=int(rng.integers(0, 2 ** 31 - 1)))
    u = rng.random()
    if u < 0.5:
        w = np.abs(rng.standard_normal(n)) + 0.3
        lo, hi = x0 - w * rng.uniform(0, 1, n), x0 + w * rng.uniform(0.1, 1, n)
        if rng.random() < 0.3:
            j = int(rng.integers(0, n)); x0 = x0.copy(); x0[j] = hi[j] + 0.5      # infeasible start
            spec['x0'] = x0
        spec['bounds'] = (lo, hi)
        spec['scaling'] = bool(rng.random() < 0.3)
    mode = str(rng.choice(['plain', 'growing', 'growing', 'regression', 'soft', 'soft', 'hard', 'avg']))
    if mode == 'growing' and n >= 2:
        spec['up']['growing.ndirs_initial'] = int(rng.integers(1, n))
        if rng.random() < 0.4:
            spec['up']['growing.do_geom_steps'] = True
        if rng.random() < 0.3:
            spec['up']['growing.num_new_dirns_each_iter'] = 1
    elif mode == 'regression':
        spec['npt'] = n + 1 + int(rng.integers(1, n + 2))
        if spec['npt'] > (n + 1) * (n + 2) // 2:
            spec['npt'] = (n + 1) * (n + 2) // 2
        if rng.random() < 0.5:
            spec['up']['regression.num_extra_steps'] = int(rng.integers(1, 4))
    elif mode in ('soft', 'hard'):
        spec['up']['restarts.use_restarts'] = True
        spec['up']['restarts.use_soft_restarts'] = (mode == 'soft')
        spec['rhoend'] = 1e-2
        spec['maxfun'] = 40 if mode == 'soft' else 25
        if mode == 'soft' and rng.random() < 0.5:
            spec['up']['restarts.increase_npt'] = True
            spec['up']['restarts.max_npt'] = min(n + 3, (n + 1) * (n + 2) // 2)
        if mode == 'soft' and rng.random() < 0.3:
            spec['up']['restarts.soft.move_xk'] = False
    elif mode == 'avg':
        spec['nsamples'] = int(rng.integers(2, 4))         # averaging: state correspondence only (C04 excludes averaging)
    spec['mode'] = mode
    if spec['lam'] and spec['scaling']:
        spec['scaling'] = False          # F22: regulariser + scaling is a documented limitation
    return spec


def run_plain(spec):
    """the same solve call as run_recorded, without the Model recorder"""
    return _solve(spec, record=False)[1]


def run_recorded(spec):
    return _solve(spec, record=True)


def _solve(spec, record):
    import dfols
    A, b, kind = spec['A'], spec['b'], spec['kind']

    def f(x):
        x = np.asarray(x, dtype=float)
        if kind == 'lin':
            return A.dot(x) - b
        if kind == 'nl':
            y = A.dot(x)
            return y + 0.3 * np.sin(y) - b
        return np.array([10.0 * (x[i + 1] - x[i] ** 2) for i in range(len(x) - 1)] + [1.0 - x[i] for i in range(len(x) - 1)])
    kw = dict(maxfun=spec['maxfun'], user_params=dict(spec['up']))
    if spec.get('rhoend'):
        kw['rhoend'] = spec['rhoend']
    if spec['bounds'] is not None:
        kw['bounds'] = (spec['bounds'][0].copy(), spec['bounds'][1].copy())
        kw['scaling_within_bounds'] = spec['scaling']
    if spec['npt']:
        kw['npt'] = spec['npt']
    if spec.get('nsamples'):
        ns = spec['nsamples']
        kw['nsamples'] = lambda delta, rho, iter, nrestarts: ns
    hlit = 'None'
    if spec['lam']:
        lam = spec['lam']
        kw['h'] = IO.h_l1(lam)
        kw['lh'] = lam * np.sqrt(spec['n'])
        kw['prox_uh'] = lambda x, u, *a: np.sign(x) * np.maximum(np.abs(x) - lam * u, 0.0)
        kw['user_params']['func_tol.max_iters'] = 30
        hlit = '(Some (h_l1 %s))' % IO.flit(lam)
    np.random.seed(spec['seed'] % (2 ** 32))
    import contextlib
    rec = Recorder(hlit) if record else None
    with (rec if record else contextlib.nullcontext()), warnings.catch_warnings(), np.errstate(all='ignore'):
        warnings.simplefilter('ignore')
        try:
            soln = dfols.solve(f, spec['x0'].copy(), **kw)
            out = dict(flag=int(soln.flag), nf=int(soln.nf), nruns=int(soln.nruns))
        except Exception as ex:
            out = dict(flag='raised %s' % type(ex).__name__, nf=0, nruns=0)
    return (rec.histories if record else []), out


def hist_task(args):
    seed, count = args
    rng = np.random.default_rng(seed)
    res = []
    for _ in range(count):
        spec = gen_run(rng)
        hs, out = run_recorded(spec)
        for H in hs:
            if H.broken and H.broken != 'assertion':
                res.append(dict(skip=H.broken))
                continue
            if len(H.ops) < 2 or len(H.ops) > 200:
                continue
            res.append(dict(lit=H.lit, ops=H.ops, hashes=H.hashes, kinds=H.kinds, mode=spec['mode'], flag=out['flag'], adm=not spec.get('nsamples'),
                            desc=dict(n=spec['n'], m=spec['m'], kind=spec['kind'], mode=spec['mode'], maxfun=spec['maxfun'], lam=spec['lam'],
                                      bounds=spec['bounds'] is not None, scaling=spec['scaling'], npt=spec['npt'], nsamples=spec.get('nsamples'), rhoend=spec.get('rhoend'), up=spec['up'], seed=spec['seed'],
                                      x0=[float(v).hex() for v in spec['x0']], A=[[float(v).hex() for v in r] for r in spec['A']],
                                      b=[float(v).hex() for v in spec['b']],
                                      lo=None if spec['bounds'] is None else [float(v).hex() for v in spec['bounds'][0]],
                                      hi=None if spec['bounds'] is None else [float(v).hex() for v in spec['bounds'][1]])))
    return res


def spec_from_desc(d):
    f = lambda l: np.array([float.fromhex(v) for v in l])
    spec = dict(n=d['n'], m=d['m'], kind=d['kind'], mode=d['mode'], maxfun=d['maxfun'], lam=d['lam'], scaling=d['scaling'], npt=d['npt'],
                up=dict(d['up']), seed=d['seed'], x0=f(d['x0']), A=np.array([[float.fromhex(v) for v in r] for r in d['A']]).reshape(d['m'], d['n']),
                b=f(d['b']), bounds=None if d['lo'] is None else (f(d['lo']), f(d['hi'])), nsamples=d.get('nsamples'), rhoend=d.get('rhoend'))
    return spec


def replay(data):
    """re-record the history named in a replay file and re-evaluate it in Coq; returns a violation dict or None"""
    ctx = C.Ctx('C04_replay', 'quick', 0)
    if not (C.translate(ctx) and C.compile_gen(ctx, needed=('Gen_util', 'Gen_model', 'Gen_tables')) and C.compile_perrun(ctx, ['Char_model.v', 'C17.v'])):
        return dict(signature='C04:replay_build_failed', what='the regenerated model does not build: %s' % [o for o in ctx.obligations if not o[1]][:2])
    hs, out = run_recorded(spec_from_desc(data['history']))
    ok, o = C.coq_eval(ctx, 'Corr_hist', HIST_V, '')
    if not ok:
        return dict(signature='C04:replay_build_failed', what=C.first_error(o))
    for i, H in enumerate(hs):
        if H.broken or len(H.ops) < 1:
            continue
        ops = '[%s]' % '; '.join(H.ops)
        body = '\n'.join(['From Coq Require Import ZArith List Bool.', 'Require Import DV.Base.Prelude DV.Base.F64 DV.Spec.Schema DV.Lib.MBook DV.Lib.Corr.',
                          'From P Require Import Corr_hist.', 'Import ListNotations.', 'Open Scope Z_scope.',
                          'Eval vm_compute in [first_inadmissible %s %s 0].' % (ops, H.lit)])
        ok, o = C.coq_eval(ctx, 'replay_hist_%d' % i, body, '')
        ls = C.parse_eval_lists(o) if ok else []
        if ls and ls[0] and ls[0][0] != -1:
            a = ls[0][0]
            return dict(signature='C04:inadmissible_step:%s' % H.kinds[a], what='step %d (%s) of the re-recorded history is inadmissible' % (a, H.kinds[a]))
    return None


def correspondence(ctx, nruns, admissibility=True):
    """obligations correspondence:solve-histories (state hashes) and hypothesis:admissible-on-recorded-histories"""
    shards = max(1, min(C.NPROC, nruns // 4))
    per = max(1, nruns // shards)
    res = C.parallel(hist_task, [(ctx.seed * 7919 + 17 * i + 5, per) for i in range(shards)], timeout_each=600)
    cases, skipped = [], 0
    for t, st, r in res:
        if st != 'ok':
            ctx.oblige('correspondence:solve-histories', False, 'recording failed: %s %s' % (st, r))
            return
        for c in r:
            if 'skip' in c:
                skipped += 1
            else:
                cases.append(c)
    ok, out = C.coq_eval(ctx, 'Corr_hist', HIST_V, '')
    if not ok:
        ctx.oblige('correspondence:solve-histories', False, 'Corr_hist.v: ' + C.first_error(out))
        return
    per_file = 12
    files = []
    for fi in range(0, len(cases), per_file):
        body = ['From Coq Require Import ZArith List Bool.', 'Require Import DV.Base.Prelude DV.Base.F64 DV.Spec.Schema DV.Lib.MBook DV.Lib.Corr.',
                'From P Require Import Corr_hist.', 'Import ListNotations.', 'Open Scope Z_scope.']
        items = []
        for c in cases[fi:fi + per_file]:
            ops = '[%s]' % '; '.join(c['ops'])
            items.append('(first_diff (xtrace %s %s) [%s] 0, first_inadmissible %s %s 0, first_inexact %s %s 0)' %
                         (ops, c['lit'], '; '.join(C.zlit(z) for z in c['hashes']), ops, c['lit'], ops, c['lit']))
        body.append('Eval vm_compute in [' + ';\n'.join(items) + '].')
        name = 'cases_hist_%d' % (fi // per_file)
        open(os.path.join(ctx.build, 'P', name + '.v'), 'w').write('\n'.join(body))
        files.append(name)
    from concurrent.futures import ThreadPoolExecutor

    def comp(nm):
        return nm, C.coqc(ctx, os.path.join(ctx.build, 'P', nm + '.v'), 900)
    with ThreadPoolExecutor(C.NPROC) as ex:
        results = list(ex.map(comp, files))
    import re
    total = nmis = ninad = nrounding = 0
    for (nm, (ok, out)) in results:
        if not ok:
            ctx.oblige('correspondence:solve-histories', False, '%s: %s' % (nm, C.first_error(out)))
            return
        pairs = re.findall(r'\(\s*(-?\d+)\s*,\s*(-?\d+)\s*,\s*(-?\d+)\s*\)', out.replace('%Z', ''))
        fi = int(nm.split('_')[-1]) * per_file
        for i, (d, a, ax) in enumerate(pairs):
            d, a, ax = int(d), int(a), int(ax)
            if ax != -1 and a == -1:
                nrounding += 1
            c = cases[fi + i]
            total += 1
            if d != -1:
                nmis += 1
                if nmis <= 3:
                    ctx.oblige('correspondence:solve-histories[%d]' % (fi + i), False,
                               'regenerated Model methods and the implementation differ at step %d (%s) of a recorded %d-step history (%s)'
                               % (d, c['kinds'][d] if d < len(c['kinds']) else 'final-results', len(c['kinds']), c['desc']))
            if a != -1 and c['adm'] and admissibility:
                ninad += 1
                if ninad <= 3:
                    ctx.violate('C04:inadmissible_step:%s' % c['kinds'][a],
                                'a recorded solve() history overwrites the incumbent slot with a worse or NaN value without having saved it '
                                '(step %d, %s): hypothesis `admissible` of C04_returned_objective_is_best fails' % (a, c['kinds'][a]),
                                dict(history=c['desc'], step=a, kind='inadmissible-history'))
    kinds = {}
    for c in cases:
        for k in c['kinds']:
            kinds[k] = kinds.get(k, 0) + 1
    ctx.cov['solve_histories_replayed'] = total
    ctx.cov['solve_history_steps'] = sum(len(c['kinds']) for c in cases)
    ctx.cov['solve_history_op_distribution'] = kinds
    ctx.cov['solve_history_modes'] = dict((m, sum(1 for c in cases if c['mode'] == m)) for m in set(c['mode'] for c in cases))
    ctx.cov['solve_histories_skipped'] = skipped
    ctx.cov['solve_histories_admissible_only_up_to_1e-12'] = nrounding
    if total != len(cases) or total == 0:
        ctx.oblige('correspondence:solve-histories', False, 'only %d of %d recorded histories were evaluated' % (total, len(cases)))
    elif nmis == 0:
        ctx.oblige('correspondence:solve-histories(%d histories of real solve() runs, %d steps, bit-exact)' % (total, ctx.cov['solve_history_steps']), True)
    if ninad == 0 and total and admissibility:
        ctx.oblige('hypothesis:admissible-on-recorded-histories(%d histories)' % total, True)
