"""Real dfols.model.Model <-> Coq literal of (@model_state ArithF64), and the integer flattening/hash that DV.Lib.Corr computes."""
import numpy as np
from .common import bits, zlit

P61 = 2305843009213693951


def hashZ(l):
    acc = 7
    for z in l:
        acc = (acc * 1000003 + int(z) + 1) % P61
    return acc


def fl_vec(v):
    v = np.asarray(v, dtype=float).ravel()
    return [-1, len(v)] + [bits(x) for x in v]


def fl_mat(m):
    m = np.asarray(m, dtype=float)
    out = [-4, m.shape[0]]
    for r in m:
        out += fl_vec(r)
    return out


def fl_zvec(v):
    v = [int(x) for x in np.asarray(v).ravel()]
    return [-5, len(v)] + v


def fl_opt(f, o):
    return [-2] if o is None else [-3] + f(o)


def st_flat(M):
    out = [int(M.dim), int(M.resid_dim), int(M.num_pts), int(M.npt_so_far), int(M.kopt)]
    out += fl_vec(M.xbase) + fl_vec(M.sl) + fl_vec(M.su) + fl_mat(M.points) + fl_mat(M.fval_v) + fl_vec(M.objval)
    out += fl_zvec(M.nsamples) + fl_zvec(M.eval_num) + fl_vec(M.model_const) + fl_mat(M.model_jac) + fl_opt(fl_zvec, M.model_jac_eval_nums)
    out += fl_opt(fl_vec, M.xsave) + fl_opt(fl_vec, M.rsave) + fl_opt(lambda x: [bits(x)], M.objsave) + fl_opt(fl_mat, M.jacsave)
    out += fl_opt(lambda z: [int(z)], M.nsamples_save) + fl_opt(lambda z: [int(z)], M.eval_num_save) + fl_opt(fl_zvec, M.jacsave_eval_nums)
    out += [1 if M.factorisation_current else 0]
    return out


def st_hash(M):
    return hashZ(st_flat(M))


def vlit(v):
    return '(vof [' + '; '.join(str(bits(x)) for x in np.asarray(v, dtype=float).ravel()) + '])'


def mlit(m):
    return '[' + '; '.join(vlit(r) for r in np.asarray(m, dtype=float)) + ']'


def zvlit(v):
    return '[' + '; '.join(zlit(x) for x in np.asarray(v).ravel()) + ']'


def olit(o, f):
    return 'None' if o is None else '(Some %s)' % f(o)


def flit(x):
    return '(of_bits %d)' % bits(x)


def model_lit(M, hlit='None', projlit='[]'):
    """Coq term for the state of a real Model (scaling_changes as given on the model)"""
    sc = M.scaling_changes
    sclit = 'None' if sc is None else '(Some (%s, %s))' % (vlit(sc[0]), vlit(sc[1]))
    parts = [zlit(M.dim), zlit(M.resid_dim), zlit(M.num_pts), zlit(M.npt_so_far), vlit(M.xbase), vlit(M.sl), vlit(M.su), projlit,
             mlit(M.points), mlit(M.fval_v), vlit(M.objval), zlit(M.kopt), zvlit(M.nsamples), zvlit(M.eval_num),
             flit(M.objbeg), flit(M.abs_tol), flit(M.rel_tol), vlit(M.model_const), mlit(M.model_jac), olit(M.model_jac_eval_nums, zvlit),
             olit(M.xsave, vlit), olit(M.rsave, vlit), olit(M.objsave, flit), olit(M.jacsave, mlit), olit(M.nsamples_save, zlit),
             olit(M.eval_num_save, zlit), olit(M.jacsave_eval_nums, zvlit), 'true' if M.factorisation_current else 'false', hlit, sclit]
    return '(@mk_model ArithF64 ' + ' '.join(parts) + ')'


# ---- sequential kernels substituted for BLAS in the module namespaces, so that the comparison is bit-exact ----
class SqF(np.float64):
    """a binary64 scalar whose x**2 is the correctly rounded x*x: Python and numpy scalars compute x**2 with libm's pow,
    which differs from x*x in about 0.1% of arguments (by one ulp), while numpy arrays compute v**2 as v*v; the model has x*x"""

    def __pow__(self, e):
        if e == 2:
            return np.float64(self) * np.float64(self)
        return np.float64.__pow__(self, e)


def seq_dot(a, b):
    a = np.asarray(a, dtype=float)
    b = np.asarray(b, dtype=float)
    if a.ndim == 1 and b.ndim == 1:
        acc = 0.0
        for x, y in zip(a.tolist(), b.tolist()):
            acc = acc + x * y
        return SqF(acc)
    if a.ndim == 2 and b.ndim == 1:
        return np.array([seq_dot(r, b) for r in a], dtype=float)
    if a.ndim == 2 and b.ndim == 2:
        return np.array([[seq_dot(r, b[:, j]) for j in range(b.shape[1])] for r in a], dtype=float).reshape(a.shape[0], b.shape[1])
    return np.dot(a, b)


def seq_sumsq(x):
    return seq_dot(x, x)


class NpProxy:
    """numpy with a sequential dot (installed as `np` in a dfols module's namespace by the harness)"""

    def __init__(self):
        self.__dict__['_np'] = np

    def __getattr__(self, name):
        if name == 'dot':
            return seq_dot
        if name == 'linalg':
            return LinalgProxy()
        return getattr(self._np, name)


class LinalgProxy:
    """numpy.linalg with the 2-norm of a vector computed as sqrt(sequential dot) (numpy computes sqrt(x.dot(x)) through BLAS)"""

    def __getattr__(self, name):
        if name == 'norm':
            def norm(x, *a, **k):
                x = np.asarray(x, dtype=float)
                if a or k or x.ndim != 1:
                    return np.linalg.norm(x, *a, **k)
                return np.sqrt(seq_dot(x, x))
            return norm
        return getattr(np.linalg, name)


def h_l1(lam):
    def h(x, *args):
        acc = 0.0
        for v in np.asarray(x, dtype=float).tolist():
            acc = acc + abs(v)
        return np.float64(lam * acc)
    return h
